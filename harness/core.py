"""Shared machinery of the psec verification harness.

* imports psec from the repository working tree (``PSEC_REPO``, default /repo) with
  ``os.urandom`` / ``random._urandom`` interposed *before* the import, so every byte of
  operating-system entropy psec obtains is recorded and can be replayed;
* encodes Python values as protocol tokens and canonicalises outcomes;
* builds and drives the compiled Lean driver (``lean/.lake/build/bin/psecdrv``);
* runs the proof-obligation audit (``#print axioms`` + source scan);
* collects cases, compares implementation / model / specification and writes evidence.
"""
import copy
import enum
import fcntl
import hashlib
import threading
import json
import os
import random as _random_mod
import re
import inspect
import subprocess
import sys
import time
import warnings

warnings.filterwarnings("ignore")

HERE = os.path.dirname(os.path.abspath(__file__))
VERIF = os.path.dirname(HERE)
LEAN_DIR = os.path.join(VERIF, "lean")
DRIVER = os.path.join(LEAN_DIR, ".lake", "build", "bin", "psecdrv")
REPO = os.environ.get("PSEC_REPO", "/repo")

# --------------------------------------------------------------------------
# entropy interposition (must happen before psec is imported)
# --------------------------------------------------------------------------
_real_urandom = os.urandom


class Entropy:
    """Recording / replaying wrapper around os.urandom."""

    def __init__(self):
        self.log = []          # list of bytes objects drawn during the current call
        self.replay = None     # bytes to hand out instead of real entropy (replay mode)

    def urandom(self, n):
        if self.replay is not None:
            b = self.replay[:n]
            self.replay = self.replay[n:]
            if len(b) != n:
                raise RuntimeError("replay entropy exhausted")
        else:
            b = _real_urandom(n)
        self.log.append(b)
        return b


ENT = Entropy()
os.urandom = ENT.urandom
_random_mod._urandom = ENT.urandom

if REPO not in sys.path:
    sys.path.insert(0, REPO)


# --------------------------------------------------------------------------
# which lines of the implementation a run executes (sys.monitoring, Python >= 3.12; each line event is disabled after
# its first hit, so the cost is negligible). Reported in the evidence: generator quality bounds what the tie can see.
# --------------------------------------------------------------------------
_COV_ROOT = os.path.realpath(os.path.join(REPO, "psec")) + os.sep
COV_HIT = set()


def _cov_start():
    mon = getattr(sys, "monitoring", None)
    if mon is None:
        return False
    try:
        mon.use_tool_id(3, "psec-verif-lines")
    except ValueError:
        return False

    def on_line(code, line):
        fn = code.co_filename
        if fn.startswith(_COV_ROOT):
            COV_HIT.add((fn[len(_COV_ROOT):], line))
        return mon.DISABLE
    mon.register_callback(3, mon.events.LINE, on_line)
    mon.set_events(3, mon.events.LINE)
    return True


COV_ON = _cov_start()
if os.environ.get("VERIF_CHILD_WARNINGS") == "error":
    # child interpreters only: every warning is an error from here on (import of the library included)
    warnings.resetwarnings()
    warnings.simplefilter("error")
    try:
        from cryptography.utils import CryptographyDeprecationWarning as _CDW
        warnings.filterwarnings("ignore", category=_CDW)
    except Exception:  # noqa: BLE001
        pass
if os.environ.get("VERIF_CHILD_LOCALE"):
    # child interpreters only: a numeric locale that groups digits (1,024), as a host application may have selected
    import locale as _locale
    try:
        _locale.setlocale(_locale.LC_NUMERIC, os.environ["VERIF_CHILD_LOCALE"])
    except _locale.Error:
        pass
if os.environ.get("VERIF_CHILD_IMPORTS") == "reverse":
    # child interpreters only: the package's modules imported top-down (the one with most dependencies first), then a star import,
    # after the entropy interposer is in place
    import importlib as _importlib
    for _m in ("tr31", "pinblock", "pin", "cvv", "mac", "des", "aes", "tools"):
        _importlib.import_module("psec." + _m)
    exec("from psec import *", {})
import psec  # noqa: E402
# (No `importlib.reload` of single modules here: a first version of this mode reloaded tools / des / aes / mac in place, which
# makes every object another module bound at import - an Enum member, a function - a stale one. Binding such constants at
# import is an ordinary, harmless way to write Python (refactoring drill R11), and no property speaks of reloading.)

def coverage_report():
    """per source file: executable lines (from the compiled code objects), lines executed in this process, lines missed"""
    if not COV_ON:
        return None
    import types
    rep = {}
    for name in sorted(os.listdir(_COV_ROOT)):
        if not name.endswith(".py"):
            continue
        try:
            code = compile(open(os.path.join(_COV_ROOT, name)).read(), os.path.join(_COV_ROOT, name), "exec")
        except (OSError, SyntaxError):
            continue
        lines, todo = set(), [code]
        while todo:
            c = todo.pop()
            lines |= {ln for _, _, ln in c.co_lines() if ln}
            todo += [k for k in c.co_consts if isinstance(k, types.CodeType)]
        hit = {ln for f, ln in COV_HIT if f == name}
        rep[name] = {"lines": len(lines), "hit": len(lines & hit), "missed": sorted(lines - hit)}
    return rep

from psec import tr31 as _tr31  # noqa: E402
from psec import mac as _mac  # noqa: E402

if not os.path.abspath(psec.__file__).startswith(os.path.abspath(REPO) + os.sep):
    print(f"INFRA: psec imported from {psec.__file__}, expected under {REPO}")
    sys.exit(2)
if sys.byteorder != "little":
    print("INFRA: model of tools.xor assumes a little-endian platform")
    sys.exit(2)


class InfraError(Exception):
    pass


# --------------------------------------------------------------------------
# tokens
# --------------------------------------------------------------------------
def enc_s(s):
    return "s:" + ",".join(str(ord(ch)) for ch in s)


def enc_b(b):
    return "b:" + bytes(b).hex()


def enc_i(i):
    return "n" if i is None else "i:" + str(int(i))


def enc_header(h):
    """Visible state of a tr31.Header object, read through its public interface only (attributes, and the optional blocks
    through the mapping protocol: iteration, item access, len, membership). A mapping that disagrees with itself is marked
    in the state string, so it shows up as a disagreement with the model."""
    def f(x):
        return ",".join(str(ord(ch)) for ch in x)
    ids = list(h.blocks)
    items, odd = [], ""
    for k in ids:
        try:
            items.append((k, h.blocks[k]))
        except Exception as e:  # noqa: BLE001 - iteration yields an id that item access refuses
            items.append((k, "!" + type(e).__name__))
            odd = "/!inconsistent-mapping"
    blocks = ";".join(f(str(k)) + "~" + f(str(v)) for k, v in items)
    if len(h.blocks) != len(ids) or not all(k in h.blocks for k in ids) or len(set(ids)) != len(ids):
        odd = "/!inconsistent-mapping"
    return "H:" + "/".join([f(h.version_id), f(h.key_usage), f(h.algorithm), f(h.mode_of_use),
                            f(h.version_num), f(h.exportability), f(h.reserved), blocks]) + odd


def enc(v):
    if v is None:
        return "n"
    if isinstance(v, bool):
        return "i:1" if v else "i:0"
    if isinstance(v, (bytes, bytearray, memoryview)):
        return enc_b(v)
    if isinstance(v, str):
        return enc_s(v)
    if isinstance(v, int):
        return enc_i(v)
    if isinstance(v, _mac.Algorithm):
        return "a:aes" if v == _mac.Algorithm.AES else "a:des"
    if isinstance(v, _tr31.Header):
        return enc_header(v)
    raise TypeError(f"cannot encode {type(v)}")


def dec_tok(t):
    """Token -> Python value (for replay)."""
    if t == "n":
        return None
    if t.startswith("s:"):
        body = t[2:]
        return "".join(chr(int(x)) for x in body.split(",")) if body else ""
    if t.startswith("b:"):
        return bytes.fromhex(t[2:])
    if t.startswith("i:"):
        return int(t[2:])
    if t == "a:des":
        return _mac.Algorithm.DES
    if t == "a:aes":
        return _mac.Algorithm.AES
    if t.startswith("H:"):
        return header_from_token(t)
    raise ValueError(t)


def build_header(fields7, blocks):
    """A Header with the given seven fields (reserved included) and ordered blocks, built through the public interface only:
    `Header.load` of the 16 fixed characters sets every field, item assignment adds the blocks."""
    ver, ku, al, mou, vn, ex, res = fields7
    h = _tr31.Header()
    h.load(ver + "0016" + ku + al + mou + vn + ex + "00" + res)
    for k, v in blocks:
        h.blocks[k] = v
    return h


def header_from_token(t):
    parts = t[2:].split("/")

    def g(x):
        return "".join(chr(int(c)) for c in x.split(",")) if x else ""
    blocks = []
    if parts[7]:
        for e in parts[7].split(";"):
            k, v = e.split("~")
            blocks.append((g(k), g(v)))
    return build_header([g(p) for p in parts[:7]], blocks)


# --------------------------------------------------------------------------
# calling the implementation
# --------------------------------------------------------------------------
def resolve(fn):
    obj = psec
    for part in fn.split("."):
        obj = getattr(obj, part)
    return obj


def snapshot(v):
    if isinstance(v, _tr31.Header):
        try:
            text = str(v)
        except Exception as e:  # noqa: BLE001
            text = "<" + type(e).__name__ + ">"
        return ("H", enc_header(v), text)
    if isinstance(v, bytearray):
        return ("ba", bytes(v))
    return ("v", v)


def outcome_class(e, stream):
    """Canonical error class of an exception for a stream ('tr31' or 'plain')."""
    if stream == "tr31":
        if isinstance(e, (_tr31.HeaderError, _tr31.KeyBlockError)):
            return "tr31"
        return "other:" + type(e).__name__
    if isinstance(e, ValueError):
        return "value"
    return "other:" + type(e).__name__


_EXC_RING = []
_SHARED_EXC = []


class CallResult:
    __slots__ = ("ok", "value", "err", "exc", "entropy", "args_changed", "elapsed", "index", "state", "requests", "type_note")


def call_impl(fn, args, stream="plain", replay_entropy=None, kwargs=None):
    """Run psec.<fn>(*args); record entropy, argument mutation, outcome."""
    f = resolve(fn) if isinstance(fn, str) else fn
    call_args, call_kwargs = _call_style(fn, f, args, kwargs)
    before = [snapshot(a) for a in args]
    ENT.log = []
    ENT.replay = replay_entropy
    r = CallResult()
    t0 = time.perf_counter()
    try:
        r.value = f(*call_args, **call_kwargs)
        r.ok = True
        r.err = None
        r.exc = None
    except RecursionError:
        raise
    except Exception as e:  # noqa: BLE001 - the class is the observation
        r.ok = False
        r.value = None
        r.err = outcome_class(e, stream)
        r.exc = e
    finally:
        ENT.replay = None
    r.elapsed = time.perf_counter() - t0
    if not r.ok and r.exc is not None:
        if any(r.exc is e for e in _EXC_RING):
            _SHARED_EXC.append(f"{fn if isinstance(fn, str) else getattr(fn, '__name__', 'call')} raised the very same exception object as an earlier call "
                               f"({type(r.exc).__name__}: a shared instance accumulates tracebacks and keeps the earlier calls' arguments reachable)")
        _EXC_RING.append(r.exc)
        if len(_EXC_RING) > 40:
            del _EXC_RING[0]
    r.entropy = b"".join(ENT.log)
    r.requests = [len(x) for x in ENT.log]
    ENT.log = []
    after = [snapshot(a) for a in args]
    r.args_changed = before != after
    # the documented result type, exactly (a subclass, a bytearray or a view where `bytes` is documented behaves differently under
    # hashing, pickling, `is`-caching and in-place operators although it compares equal); judged for plain `bytes` / `str` arguments only
    r.type_note = None
    if r.ok and isinstance(fn, str) and fn in _PINNED_RETURNS and not any(isinstance(a, (bytearray, memoryview)) for a in args):
        simple = {"bytes": bytes, "str": str, "int": int, "bool": bool}
        doc = _PINNED_RETURNS[fn]
        want_t = simple.get(doc)
        if want_t is not None and type(r.value) is not want_t:
            r.type_note = f"{fn} returned a {type(r.value).__name__}, documented: {doc}"
        m_ = re.fullmatch(r"(?:_typing\.)?Tuple\[(.*)\]", doc)
        if m_:
            parts = [x.strip() for x in m_.group(1).split(",")]
            if type(r.value) is not tuple or len(r.value) != len(parts):
                r.type_note = f"{fn} returned {type(r.value).__name__}, documented: {doc}"
            else:
                for part, v_ in zip(parts, r.value):
                    if part in simple and type(v_) is not simple[part]:
                        r.type_note = f"{fn} returned a tuple holding a {type(v_).__name__} where {part} is documented ({doc})"
    if isinstance(fn, str) and not kwargs and replay_entropy is None and not r.args_changed:
        _opt_record(fn, args, stream, r)
    return r


OPT_POOL = []
_OPT_COUNT = {}


def generic_canon(v):
    """canonical text of any result (bytes, str, int, None, Header, tuples of these) - used where no per-call tokeniser is at hand"""
    if isinstance(v, (tuple, list)):
        return "(" + ";".join(generic_canon(x) for x in v) + ")"
    try:
        return enc(v)
    except TypeError:
        return "<" + type(v).__name__ + ">"


_OPT_RNG = _random_mod.Random(20260930)
_OPT_SLOTS = {}


def _opt_record(fn, args, stream, r):
    """keep calls of every public function for the `python -O` repetition, stratified by outcome and spread over the whole run:
    per function and outcome class the first ten calls, plus a uniform reservoir (eighty for successes, thirty per error
    class) over all later ones"""
    bucket = (fn, "ok" if r.ok else r.err)
    k = _OPT_COUNT.get(bucket, 0)
    _OPT_COUNT[bucket] = k + 1
    cap = 80 if r.ok else 30
    slot = None
    # ... and the first call of every distinct *shape* of arguments (lengths up to 40, small integers by value, None, version and
    # number of blocks of a header) is always kept, up to 300 shapes per function and outcome: a boundary class that a generator
    # visits a few times in thousands of calls (a window of 17 digits, a block size of 1) is then repeated in every child
    # whatever the seed
    shapes = _OPT_SHAPES.setdefault(bucket, set())
    shape = _arg_shape(args)
    fresh_shape = shape not in shapes and len(shapes) < 300
    if fresh_shape:
        shapes.add(shape)
    # ... and so is the first call in which any single argument takes a shape not yet seen in that position (the joint shapes of a
    # function with seven parameters run into the thousands; the values of one parameter do not)
    for pos, sh_ in enumerate(shape):
        seen_here = _OPT_SHAPES.setdefault((bucket, pos), set())
        if sh_ not in seen_here:
            seen_here.add(sh_)
            fresh_shape = True
    # ... and the first three rejections with every distinct message (digits blanked): one raise site each - a message that
    # formats a bytes object, say, is built on that path only
    if not r.ok and r.exc is not None:
        try:
            msg = re.sub(r"[0-9]+", "#", str(r.exc))[:60]
        except Exception:  # noqa: BLE001
            msg = "?"
        nmsg = _OPT_COUNT.get((bucket, "msg", msg), 0)
        _OPT_COUNT[(bucket, "msg", msg)] = nmsg + 1
        if nmsg < 3:
            fresh_shape = True
    if k >= 10 and not fresh_shape:
        slots = _OPT_SLOTS.setdefault(bucket, [])
        if len(slots) >= cap:
            j = _OPT_RNG.randrange(k - 10 + 1)
            if j >= cap:
                return
            slot = slots[j]
    if sum(len(a) for a in args if isinstance(a, (bytes, bytearray, str))) > 20000:
        return      # very large arguments are exercised in this process only
    try:
        kept = copy.deepcopy(list(args))
    except Exception:  # noqa: BLE001
        return
    outcome = ("ok\t" + generic_canon(r.value)) if r.ok else ("err\t" + r.err)
    item = (fn, kept, stream, r.entropy, outcome)
    if slot is not None:
        OPT_POOL[slot] = item
    else:
        if k >= 10 and not fresh_shape:
            _OPT_SLOTS[bucket].append(len(OPT_POOL))
        OPT_POOL.append(item)


_OPT_SHAPES = {}


def _arg_shape(args):
    out = []
    for a in args:
        if isinstance(a, (bytes, bytearray)):
            out.append(("b", min(len(a), 40)))
        elif isinstance(a, str):
            out.append(("s", min(len(a), 40)))
        elif isinstance(a, bool) or a is None:
            out.append(a)
        elif isinstance(a, int):
            out.append(("i", a if -2 <= a <= 40 else "big"))
        elif isinstance(a, enum.Enum):
            out.append(a.name)
        elif type(a).__name__ == "Header":
            try:
                out.append(("H", str(a.version_id), len(a.blocks)))
            except Exception:  # noqa: BLE001
                out.append("H")
        else:
            out.append(type(a).__name__)
    return tuple(out)


_CALLNO = [0]
_SIGS = {}


try:
    _PINNED_RETURNS = json.load(open(os.path.join(os.path.dirname(os.path.abspath(__file__)), "api_returns.json")))
except OSError:
    _PINNED_RETURNS = {}
try:
    _PINNED_SIGS = json.load(open(os.path.join(os.path.dirname(os.path.abspath(__file__)), "api_signatures.json")))
except OSError:
    _PINNED_SIGS = {}


_NONE_OK = {"masked_key_len", "length", "algorithm", "block_size", "header", "pan_pad"}


def _call_style(name, f, args, kwargs):
    """The public functions are called positionally most of the time and, for every fifth call, with their last 1..n
    arguments passed by keyword (deterministically, by call number): behaviour must not depend on the call style."""
    if kwargs or not isinstance(name, str) or not args:
        return args, (kwargs or {})
    _CALLNO[0] += 1
    if _CALLNO[0] % 5:
        return args, {}
    if name not in _SIGS and name in _PINNED_SIGS:
        _SIGS[name] = _PINNED_SIGS[name]     # the documented parameter names (pinned tree), not whatever the code under test now calls them
    if name not in _SIGS:
        try:
            ps = list(inspect.signature(f).parameters.values())
            ok = inspect.isfunction(f) and all(p.kind == p.POSITIONAL_OR_KEYWORD for p in ps)
            _SIGS[name] = [p.name for p in ps] if ok else None
        except (TypeError, ValueError):
            _SIGS[name] = None
    names = _SIGS[name]
    if not names or len(args) > len(names):
        return args, {}
    k = 1 + (_CALLNO[0] // 5) % len(args)
    cut = len(args) - k
    return args[:cut], dict(zip(names[cut:len(args)], args[cut:]))


def canon_impl(r, as_tokens=None):
    if r.ok:
        if as_tokens is not None:
            return "ok\t" + as_tokens(r.value)
        return "ok\t" + enc(r.value)
    return "err\t" + r.err


def canon_reply(reply, stream="plain"):
    """Canonicalise a driver reply to the implementation's outcome classes."""
    parts = reply.split("\t")
    if parts[0] == "err":
        cls = parts[1]
        if stream == "tr31":
            if cls in ("header", "keyblock"):
                cls = "tr31"
            elif cls == "value":
                cls = "other:ValueError"
        else:
            if cls in ("header", "keyblock"):
                cls = "value"  # both are ValueError subclasses
        return "\t".join(["err", cls] + parts[2:])
    return reply


# --------------------------------------------------------------------------
# Lean side
# --------------------------------------------------------------------------
_LOCK_DEPTH = [0]
_LOCK_FILE = [None]


class build_lock:
    """Exclusive lock on the Lean project (re-entrant within this process). Regenerating a file under Generated/, building the
    module that depends on it and reading the result back are done under one lock, so that two checks running at the same
    time - possibly against different copies of the repository - never see each other's generated files."""

    def __enter__(self):
        if _LOCK_DEPTH[0] == 0:
            _LOCK_FILE[0] = open(os.path.join(LEAN_DIR, ".build.lock"), "w")
            fcntl.flock(_LOCK_FILE[0], fcntl.LOCK_EX)
        _LOCK_DEPTH[0] += 1
        return self

    def __exit__(self, *exc):
        _LOCK_DEPTH[0] -= 1
        if _LOCK_DEPTH[0] == 0:
            fcntl.flock(_LOCK_FILE[0], fcntl.LOCK_UN)
            _LOCK_FILE[0].close()
            _LOCK_FILE[0] = None
        return False


def lake_build(targets=("PsecModel", "psecdrv"), timeout=3000):
    """Build under the lock (a no-op when nothing changed). Returns (ok, output)."""
    with build_lock():
        p = subprocess.run(["lake", "build", *targets], cwd=LEAN_DIR, capture_output=True, text=True, timeout=timeout)
        return p.returncode == 0, p.stdout + p.stderr


def run_driver(groups, nproc=None):
    """groups: list of lists of lines (a group is never split). Returns list of lists of replies."""
    if not os.path.exists(DRIVER):
        raise InfraError("driver executable missing: run setup.sh")
    n = len(groups)
    if n == 0:
        return []
    weights = [sum(len(line) for line in g) + 50 * len(g) for g in groups]
    nproc = nproc or min(16, max(1, sum(len(g) for g in groups) // 200 + 1, sum(weights) // 150000 + 1))
    # balance by input size (long messages cost proportionally more): heaviest group to the lightest bucket; a group is
    # never split and groups are independent of each other (every `hist.new` starts a new object), original order inside a bucket
    buckets = [[] for _ in range(nproc)]
    loads = [0] * nproc
    for idx in sorted(range(n), key=lambda i: -weights[i]):
        b = loads.index(min(loads))
        buckets[b].append(idx)
        loads[b] += weights[idx]
    buckets = [sorted(b) for b in buckets if b]
    chunks = [[groups[i] for i in b] for b in buckets]
    procs = []
    for ch in chunks:
        data = "".join(line + "\n" for g in ch for line in g)
        p = subprocess.Popen([DRIVER], stdin=subprocess.PIPE, stdout=subprocess.PIPE, stderr=subprocess.PIPE, text=True)
        procs.append((p, ch, data))
    # feed all, then collect (communicate handles both directions per process; do it in threads)
    import threading
    outs = [None] * len(procs)

    def work(i):
        p, ch, data = procs[i]
        o, e = p.communicate(data)
        outs[i] = (p.returncode, o, e)
    th = [threading.Thread(target=work, args=(i,)) for i in range(len(procs))]
    for t in th:
        t.start()
    for t in th:
        t.join()
    result = []
    for (p, ch, data), (rc, o, e) in zip(procs, outs):
        lines = o.split("\n")
        if lines and lines[-1] == "":
            lines.pop()
        need = sum(len(g) for g in ch)
        if rc != 0 or len(lines) != need:
            raise InfraError(f"driver failed rc={rc} got {len(lines)}/{need} replies; stderr={e[:500]}")
        k = 0
        for g in ch:
            result.append(lines[k:k + len(g)])
            k += len(g)
    # back to the caller's order
    order = [i for b in buckets for i in b]
    back = [None] * n
    for pos, i in enumerate(order):
        back[i] = result[pos]
    result = back
    for g in result:
        for r in g:
            if r.startswith("bad\t"):
                raise InfraError("driver rejected a line: " + r)
    return result


AX_OK = {"propext", "Classical.choice", "Quot.sound"}
FORBIDDEN = re.compile(r"\b(sorry|admit|native_decide|bv_decide|implemented_by|unsafe)\b|^\s*axiom\s|maxHeartbeats\s+0\b", re.M)


def strip_lean_comments(src):
    # remove block comments (nested) and line comments
    out, i, depth = [], 0, 0
    while i < len(src):
        if src.startswith("/-", i):
            depth += 1
            i += 2
        elif depth and src.startswith("-/", i):
            depth -= 1
            i += 2
        elif depth:
            i += 1
        elif src.startswith("--", i):
            j = src.find("\n", i)
            i = len(src) if j < 0 else j
        else:
            out.append(src[i])
            i += 1
    return "".join(out)


def scan_sources():
    """Forbidden constructs outside comments in every Lean source of the library."""
    hits = []
    for root, _, files in os.walk(os.path.join(LEAN_DIR, "PsecModel")):
        for f in files:
            if f.endswith(".lean"):
                p = os.path.join(root, f)
                body = strip_lean_comments(open(p).read())
                # string literals may legitimately contain words; drop them
                body = re.sub(r'"(\\.|[^"\\])*"', '""', body)
                for m in FORBIDDEN.finditer(body):
                    hits.append(f"{os.path.relpath(p, LEAN_DIR)}: {m.group(0).strip()}")
    return hits


def audit(pid, theorems, imp="PsecModel"):
    """Run `#print axioms` for every theorem of the property. Returns dict with obligations/discharged/details."""
    imps = [imp] if isinstance(imp, str) else list(imp)
    lines = [f"import {i}" for i in imps] + [f"#print axioms {t}" for t in theorems]
    imp = " ".join(imps)
    src = "\n".join(lines) + "\n"
    path = os.path.join(LEAN_DIR, ".lake", f"audit_{pid}.lean")
    os.makedirs(os.path.dirname(path), exist_ok=True)
    with open(path, "w") as fh:
        fh.write(src)
    p = subprocess.run(["lake", "env", "lean", path], cwd=LEAN_DIR, capture_output=True, text=True, timeout=1200)
    out = p.stdout + p.stderr
    res = {}
    # messages look like: 'Thm' depends on axioms: [propext, Quot.sound]  /  'Thm' does not depend on any axioms
    flat = re.sub(r"\s+", " ", out)
    for t in theorems:
        m = re.search(r"'" + re.escape(t) + r"' depends on axioms: \[([^\]]*)\]", flat)
        if m:
            ax = [a.strip() for a in m.group(1).split(",") if a.strip()]
            res[t] = {"axioms": ax, "ok": set(ax) <= AX_OK}
            continue
        if re.search(r"'" + re.escape(t) + r"' does not depend on any axioms", flat):
            res[t] = {"axioms": [], "ok": True}
            continue
        res[t] = {"axioms": None, "ok": False, "error": "theorem missing or audit failed"}
    return {"theorems": res, "raw": out[-2000:] if p.returncode != 0 else "",
            "checker_cmd": f"cd lean && lake build {imp} && lake env lean .lake/audit_{pid}.lean  # #print axioms of {len(theorems)} theorems"}


DES_WEAK = [bytes.fromhex(x) for x in ("0101010101010101", "FEFEFEFEFEFEFEFE", "E0E0E0E0F1F1F1F1", "1F1F1F1F0E0E0E0E")]
DES_SEMIWEAK = [bytes.fromhex(x) for x in (
    "011F011F010E010E", "1F011F010E010E01", "01E001E001F101F1", "E001E001F101F101", "01FE01FE01FE01FE", "FE01FE01FE01FE01",
    "1FE01FE00EF10EF1", "E01FE01FF10EF10E", "1FFE1FFE0EFE0EFE", "FE1FFE1FFE0EFE0E", "E0FEE0FEF1FEF1FE", "FEE0FEE0FEF1FEF1")]


AES_ZERO_KCV = ("4a277d46da4029d97c846013ab817aa0", "37b49073c5629b87a64c1aa1135747fdc3e2c6072cf1e263",
                "f5f5dfee26b87d3e515b2b89a869bf544b8fde22d4a8b6c760f099cf47a2a04c")


def special_keys(rng, size, des=True, limit=None):
    """Key values a specification does not exclude but an implementation might treat specially: constant bytes, the DES weak and
    semi-weak keys (also with the parity bits cleared), such a component beside random ones in every position, repeated
    components, complements, ASCII text and ASCII hex digits. Every one of them is a key like any other for the properties."""
    out = [bytes(size), b"\xff" * size, (b"0123456789ABCDEF" * 4)[:size], (b"0123456789abcdef" * 4)[:size], (b"Key material 42!" * 4)[:size], (b"FEDCBA9876543210" * 4)[:size],
           b"\x01" * size, b"\xfe" * size, b"\x80" + bytes(size - 1) if size else b"", bytes(size - 1) + b"\x01" if size else b""]
    structured = []
    if des and size % 8 == 0 and size:
        n = size // 8
        comps = DES_WEAK + DES_SEMIWEAK + [bytes(8), b"\xff" * 8] + [bytes(b & 0xFE for b in k) for k in DES_WEAK[:2] + DES_SEMIWEAK[:2]]
        for comp in comps:
            out.append(comp * n)
            for pos in range(n):
                if n > 1:
                    parts = [bytes(rng.getrandbits(8) for _ in range(8)) for _ in range(n)]
                    parts[pos] = comp
                    out.append(b"".join(parts))
        a, b = (bytes(rng.getrandbits(8) for _ in range(8)) for _ in range(2))
        structured = [x[:size] for x in (a + a + b, a + b + b, a + b + a, a + bytes(x ^ 0xFF for x in a) + a) if n >= 2]
        out += structured
    elif size:
        a = bytes(rng.getrandbits(8) for _ in range(8))
        out += [(a * 4)[:size], (a + bytes(x ^ 0xFF for x in a)) * (size // 16) + a[: size % 16]]
        out[6:6] = [bytes.fromhex(k) for k in AES_ZERO_KCV if len(k) == 2 * size]      # E_K(0) starts 000000 (found by search)
    seen, uniq = set(), []
    for k in out:
        if len(k) == size and k not in seen:
            seen.add(k)
            uniq.append(k)
    if limit is not None and len(uniq) > limit:
        # always kept: the six constants and the keys with repeated components (K1|K1|K3, K1|K2|K2, K1|K2|K1 - the ones a "shortest
        # equivalent key" reduction gets wrong); the rest is sampled
        head = uniq[:6] + [k for k in structured if k in seen and k not in uniq[:6]]
        rest = [k for k in uniq if k not in head]
        uniq = head + rng.sample(rest, max(0, limit - len(head)))
    return uniq


def big_lengths(rng, tier, bs):
    """message / data lengths around the buffer sizes an implementation might chunk at (1 KiB .. 64 KiB): the boundary itself,
    one block and one byte either side. Quick: a fixed core plus a random pick; thorough: all."""
    core_ = [4096 - bs, 4095, 4096, 4097, 4096 + bs, 8192, 8192 + bs]
    more = []
    for p2 in (1024, 2048, 16384, 32768, 65536):
        more += [p2 - bs, p2, p2 + 1, p2 + bs]
    if tier == "thorough":
        return core_ + more + [3 * 4096, 5 * 4096 + bs, 131072]
    return core_ + rng.sample(more, 4)


def import_cone(module):
    """project modules (PsecModel.*) transitively imported by `module`, the module itself included"""
    seen, todo = [], [module]
    while todo:
        m = todo.pop()
        if m in seen or not m.startswith("PsecModel"):
            continue
        path = os.path.join(LEAN_DIR, *m.split(".")) + ".lean"
        if not os.path.exists(path):
            continue
        seen.append(m)
        with open(path) as fh:
            for line in fh:
                mm = re.match(r"\s*import\s+(\S+)", line)
                if mm:
                    todo.append(mm.group(1))
                elif line.strip() and not line.startswith("import") and not line.startswith("--"):
                    if not line.startswith("/-") and "import" not in line:
                        break
    return sorted(seen)


def leanchecker(module):
    """thorough tier: replay every declaration of the property's import cone (project modules) through the independent
    checker `leanchecker` (lean4checker). Returns dict(rc, modules, wall_s, tail)."""
    mods = sorted(set(m for mod_ in ([module] if isinstance(module, str) else module) for m in import_cone(mod_)))
    t0 = time.time()
    try:
        p = subprocess.run(["lake", "env", "leanchecker"] + mods, cwd=LEAN_DIR, capture_output=True, text=True, timeout=3000)
        rc, tail = p.returncode, (p.stdout + p.stderr)[-1500:]
    except subprocess.TimeoutExpired:
        raise InfraError("leanchecker timed out")
    return {"rc": rc, "modules": mods, "wall_s": round(time.time() - t0, 1), "tail": tail,
            "cmd": "cd lean && lake env leanchecker " + " ".join(mods)}


# --------------------------------------------------------------------------
# cases
# --------------------------------------------------------------------------
class Case:
    """One explored case: implementation calls already executed, lines for the driver,
    expectations on the model's replies, and predicates over specification replies."""

    def __init__(self, kind, desc=None):
        self.kind = kind
        self.desc = desc or {}
        self.lines = []
        self.expect = []     # canonical implementation outcome per line, or None
        self.stream = []     # canonicalisation stream per line
        self.calls = []      # replayable implementation calls
        self.preds = []      # (name, fn(replies) -> None | str)
        self.key = None      # distinctness key (None -> derived from lines)
        self.nontrivial = True
        self.impl_fail = []  # predicate failures found at generation time (implementation only)
        self.tags = []
        self.rechecks = []   # (fn, args, stream, tok, canonical outcome) of deterministic calls, re-run at the end of the run

    # -- implementation + model in one go --------------------------------
    def call(self, fn, *args, op=None, stream="plain", with_entropy=False, compare=True, tok=None, entropy=None):
        """psec.<fn>(*args) on the implementation; same operation as a line for the model. `entropy`: bytes the operating
        system is made to return during this call (chosen values of the random fill) instead of real entropy."""
        # an argument that is None although the function documents no None there is the missing result of an earlier call the
        # implementation refused (an encoder raising on a documented input, say): that is the finding - the dependent call is skipped
        names = _PINNED_SIGS.get(fn) if isinstance(fn, str) else None
        if names and any(a is None and k < len(names) and names[k] not in _NONE_OK for k, a in enumerate(args)):
            self.impl_fail.append(f"{fn} could not be called: an earlier call that should have produced one of its arguments failed")
            r = CallResult()
            r.ok, r.value, r.err, r.exc, r.entropy, r.requests, r.elapsed, r.args_changed = False, None, "skipped", None, b"", [], 0.0, False
            r.index = len(self.lines) - 1
            return r
        toks = [enc(a) for a in args]
        _probe_before(fn, args)
        r = call_impl(fn, args, stream=stream, replay_entropy=entropy)
        self.calls.append({"fn": fn, "args": toks, "entropy": r.entropy.hex(), "stream": stream})
        if r.args_changed:
            self.impl_fail.append(f"{fn} modified its arguments")
        if getattr(r, "type_note", None):
            self.impl_fail.append(r.type_note)
        if _SHARED_EXC:
            self.impl_fail.append(_SHARED_EXC.pop())
            del _SHARED_EXC[:]
        line = "\t".join([op or fn.split(".")[-1]] + toks + ([enc_b(r.entropy)] if with_entropy else []))
        self.line(line, canon_impl(r, tok) if compare else None, stream)
        if not with_entropy and r.entropy:
            self.impl_fail.append(f"{fn} drew {len(r.entropy)} bytes of OS entropy although it is deterministic")
        if with_entropy and r.ok and r.entropy and isinstance(fn, str):
            # every value of the random fill is admissible, whatever was drawn before: every fourth randomised call is repeated
            # with the operating system returning the very same bytes again - same requests, same result
            _REPLAYNO[0] += 1
            if _REPLAYNO[0] % 4 == 0:
                r2 = call_impl(fn, args, stream=stream, replay_entropy=r.entropy)
                if not r2.ok:
                    self.impl_fail.append(f"{fn}: repeated with the same values of the random fill, the call raised {r2.err} ({r2.exc!r})"[:300])
                elif canon_impl(r2, tok) != canon_impl(r, tok) or r2.requests != r.requests:
                    self.impl_fail.append(f"{fn}: repeated with the same values of the random fill, the call gave another result or drew differently")
        if r.ok and _has_header(r.value):
            ALIAS_WATCH.append((self, fn, r.value, canon_impl(r, tok), tok))
        if not with_entropy and isinstance(fn, str):
            self.rechecks.append((fn, [copy.deepcopy(a) if isinstance(a, bytearray) else a for a in args], stream, tok, canon_impl(r, tok)))
        r.index = len(self.lines) - 1
        return r

    def line(self, line, expect=None, stream="plain"):
        if "/!inconsistent-mapping" in line:
            # the implementation's object cannot be described to the model (its optional-block mapping disagrees with itself:
            # iteration yields ids that item access refuses, or len / membership differ): that is the implementation's failure;
            # the model is asked about an empty header instead so that the reply indices stay aligned
            if "the optional-block mapping of a header object disagrees with itself (iteration, item access, len, membership)" not in self.impl_fail:
                self.impl_fail.append("the optional-block mapping of a header object disagrees with itself (iteration, item access, len, membership)")
            line = re.sub(r"H:[^\t]*", "H:65/48,48/48/48/48,48/48/48,48/", line)
        self.lines.append(line)
        self.expect.append(expect)
        self.stream.append(stream)
        return len(self.lines) - 1

    def pred(self, name, fn):
        self.preds.append((name, fn))

    def fail(self, msg):
        self.impl_fail.append(msg)

    def dkey(self):
        if self.key is not None:
            return self.key
        return hashlib.sha1("\n".join(self.lines).encode()).hexdigest()


_PROBENO = [0]
_REPLAYNO = [0]


def _probe_before(fn, args):
    """Every seventh call of a public function is preceded by an unjudged call of the same function with one argument spoilt
    (a text argument gets a bad last character, a bytes argument loses its last byte): whatever the implementation does with
    the spoilt call - normally reject it - nothing of it may show in the call that follows."""
    if not isinstance(fn, str) or not args:
        return
    _PROBENO[0] += 1
    if _PROBENO[0] % 7:
        return
    k = (_PROBENO[0] // 7) % len(args)
    a = args[k]
    if isinstance(a, str):
        bad = (a[:-1] if a else "") + "X\n"[(_PROBENO[0] // 49) % 2]
    elif isinstance(a, (bytes, bytearray)):
        bad = bytes(a[:-1]) if len(a) else b"\x00"
    else:
        return
    spoilt = list(args)
    spoilt[k] = bad
    try:
        call_impl(fn, tuple(copy.deepcopy(x) if isinstance(x, (bytearray, _tr31.Header)) else x for x in spoilt))
    except RecursionError:
        raise


ALIAS_WATCH = []


def _has_header(v):
    """results that can change after they were returned: header objects, and byte results that are not immutable `bytes`
    (a bytearray or a memoryview may be a window onto a buffer the implementation keeps using)"""
    watch = (_tr31.Header, bytearray, memoryview)
    return isinstance(v, watch) or (isinstance(v, (tuple, list)) and any(isinstance(x, watch) for x in v))


def alias_recheck():
    """Objects the implementation returned earlier (headers from unwrap) must still say what they said when they were returned:
    a result that changes after later, unrelated calls is aliased to shared mutable state."""
    n = 0
    for c, fn, value, want, tok in ALIAS_WATCH:
        r = CallResult()
        r.ok, r.value, r.err = True, value, None
        n += 1
        try:
            got = canon_impl(r, tok)
        except Exception as e:  # noqa: BLE001
            got = f"<unreadable: {type(e).__name__}>"
        if got != want:
            c.impl_fail.append(f"{fn}: the object returned earlier now reads `{got[:120]}`, it read `{want[:120]}` when it was returned (result aliased to shared state)")
    del ALIAS_WATCH[:]
    return n


def recheck_sample(cases, rng, limit=600):
    """Re-run a sample of the deterministic calls of this run, after everything else has run, in shuffled order:
    a result that differs from the first time shows history dependence (caches, memoised state)."""
    pool = [(c, rc) for c in cases for rc in c.rechecks]
    rng.shuffle(pool)
    n = 0
    for c, (fn, args, stream, tok, want) in pool[:limit]:
        if any(isinstance(a, _tr31.Header) for a in args):
            continue
        # every other repeated call is made from a fresh worker thread: the library must not depend on the thread it was imported in
        if n % 2:
            box = []
            t = threading.Thread(target=lambda: box.append(call_impl(fn, args, stream=stream)))
            t.start()
            t.join()
            r = box[0]
        else:
            r = call_impl(fn, args, stream=stream)
        n += 1
        got = canon_impl(r, tok)
        if got != want:
            c.impl_fail.append(f"{fn}: the same call returned `{got[:120]}` when repeated at the end of the run{' from a worker thread' if (n - 1) % 2 else ''}, `{want[:120]}` the first time (history- or thread-dependent result)")
        # bytes-like arguments: every third rechecked call is made twice more with its bytes arguments as (one and the same set of)
        # bytearray objects, as a caller holding key material in mutable buffers would. Where the implementation takes bytes-like
        # input at all (no TypeError), the answer must be the one given for bytes, both times, and the buffers must be left alone.
        if n % 3 == 0 and any(type(a) is bytes for a in args):
            ba = [bytearray(a) if type(a) is bytes else a for a in args]
            before = [bytes(a) if isinstance(a, bytearray) else None for a in ba]
            for attempt in (1, 2):
                r2 = call_impl(fn, ba, stream=stream)
                if not r2.ok and isinstance(r2.exc, TypeError):
                    break
                if [bytes(a) if isinstance(a, bytearray) else None for a in ba] != before:
                    c.impl_fail.append(f"{fn} modified a bytearray argument (call {attempt} with mutable buffers)")
                    break
                # ... and usable: while the caller still holds the result or the exception (with its traceback), the buffers must
                # not be left exported - a view kept alive by a frame makes every resize of the caller's bytearray a BufferError
                locked = buffers_locked(ba)
                if locked:
                    c.impl_fail.append(f"{fn} left a bytearray argument locked against resizing after {'returning' if r2.ok else 'raising ' + type(r2.exc).__name__} ({locked})")
                    break
                got2 = canon_impl(r2, tok)
                if got2 != want:
                    c.impl_fail.append(f"{fn}: call {attempt} with the same arguments held in bytearray buffers returned `{got2[:120]}`, `{want[:120]}` with bytes")
                    break
    return n


def buffers_locked(args):
    """first bytearray among `args` that cannot be resized (BufferError: an export - a memoryview - of it is still alive), or None"""
    for a in args:
        if isinstance(a, bytearray):
            try:
                a.append(0)
                a.pop()
            except BufferError as e:
                return str(e)
    return None


CHILD_CONFIGS = [
    # (label, interpreter flags, environment, what it strips or escalates)
    ("python -OO", ["-OO"], {"PYTHONOPTIMIZE": "2"}, "assert statements and `if __debug__` blocks are compiled away, docstrings are None"),
    ("python -bb, warnings as errors", ["-bb"], {"VERIF_CHILD_WARNINGS": "error"},
     "bytes / str comparisons and every warning are errors - except the cryptography package's own CryptographyDeprecationWarning, which the unchanged library triggers"),
    ("python -X dev -X utf8, another hash seed, C locale, reverse import order, shallow stack", ["-X", "dev", "-X", "utf8"],
     {"PYTHONHASHSEED": "4242", "LC_ALL": "C", "LANG": "C", "TZ": "Pacific/Kiritimati", "VERIF_CHILD_IMPORTS": "reverse", "VERIF_CHILD_STACK": "70"},
     "development mode, UTF-8 mode, a fixed hash seed unlike the parent's, a numeric locale that groups digits (built with localedef), an unusual time zone, "
     "`psec.tr31` imported before the modules it uses, `from psec import *`, and only seventy frames of stack left "
     "for each call (the unchanged library needs fewer than twenty)"),
]


def optimised_recheck(limit=6000):
    """The calls kept by `_opt_record` (per public function and outcome class, with the operating-system entropy each one drew) are
    repeated in child interpreters started in other modes (`CHILD_CONFIGS`): with asserts stripped; with bytes / str comparisons and
    warnings escalated to errors; in development / UTF-8 mode under another hash seed, locale, time zone and import order.
    The library must give the same outcome, call by call (randomised calls under the recorded entropy), in every one of
    them. Returns a Case carrying the failures, or None when there was nothing to repeat."""
    import pickle
    import tempfile
    pool = OPT_POOL if len(OPT_POOL) <= limit else [OPT_POOL[i] for i in sorted(_OPT_RNG.sample(range(len(OPT_POOL)), limit))]
    if not pool:
        return None
    c = Case("repeated-in-other-interpreter-modes", {"calls": len(pool), "functions": len({x[0] for x in pool}), "modes": [x[0] for x in CHILD_CONFIGS]})
    c.key = "child-interpreters"
    items = []
    for fn, args, stream, entropy, outcome in pool:
        try:
            pickle.dumps(args)
            items.append((fn, args, stream, entropy, outcome))
        except Exception:  # noqa: BLE001  (an argument that cannot be pickled: not repeated)
            pass
    here = os.path.dirname(os.path.abspath(__file__))
    procs = []
    with tempfile.TemporaryDirectory() as td:
        # a throw-away numeric locale that groups digits (built with localedef when the system has none): LOCPATH points at it
        locenv = {}
        try:
            with open(os.path.join(td, "ascii.cm"), "w") as fh:
                fh.write("<code_set_name> ANSI_X3.4-1968\n<comment_char> %\n<escape_char> /\nCHARMAP\n")
                for i in range(128):
                    fh.write("<U%04X>     /x%02x         C%d\n" % (i, i, i))
                fh.write("END CHARMAP\n")
            with open(os.path.join(td, "grp.src"), "w") as fh:
                fh.write('LC_NUMERIC\ndecimal_point "<U002C>"\nthousands_sep "<U002E>"\ngrouping 3;3\nEND LC_NUMERIC\n')
            subprocess.run(["localedef", "-c", "-f", os.path.join(td, "ascii.cm"), "-i", os.path.join(td, "grp.src"), os.path.join(td, "xx_GR")],
                           stdout=subprocess.DEVNULL, stderr=subprocess.DEVNULL, timeout=60)
            if os.path.isdir(os.path.join(td, "xx_GR")):
                locenv = {"LOCPATH": td, "VERIF_CHILD_LOCALE": "xx_GR"}
        except (OSError, subprocess.SubprocessError):
            pass
        inp = os.path.join(td, "in.pkl")
        pickle.dump([(fn, args, stream, entropy) for fn, args, stream, entropy, _ in items], open(inp, "wb"))
        for k, (label, flags, envx, _) in enumerate(CHILD_CONFIGS):
            outp = os.path.join(td, f"out{k}.pkl")
            env = dict(os.environ, PSEC_REPO=os.path.abspath(REPO))
            env.pop("PYTHONOPTIMIZE", None)
            env.update(envx)
            if "VERIF_CHILD_IMPORTS" in envx:
                env.update(locenv)
                env.pop("LC_ALL", None) if locenv else None
            procs.append((label, outp, subprocess.Popen([sys.executable] + flags + [os.path.join(here, "optchild.py"), inp, outp], cwd=here, env=env,
                                                        stdout=subprocess.PIPE, stderr=subprocess.PIPE, text=True)))
        results = []
        for label, outp, p in procs:
            try:
                so, se = p.communicate(timeout=900)
            except subprocess.TimeoutExpired:
                p.kill()
                raise InfraError(f"the child interpreter ({label}) timed out")
            if p.returncode != 0 or not os.path.exists(outp):
                # a child that cannot even start the harness is reported as the implementation's failure only if importing psec is what broke
                tb_files = re.findall(r'File "([^"]+)", line \d+', se or "")
                if tb_files and os.path.realpath(tb_files[-1]).startswith(os.path.realpath(REPO) + os.sep):
                    c.impl_fail.append(f"under `{label}` the library cannot be imported or used at all: {(se or so).strip().splitlines()[-1][:200]} (raised in {os.path.relpath(tb_files[-1], os.path.realpath(REPO))})")
                    continue
                raise InfraError(f"the child interpreter ({label}) failed: " + (se or so)[-500:])
            results.append((label, pickle.load(open(outp, "rb"))))
    for label, res in results:
        if label == "python -OO" and res["asserts_active"]:
            raise InfraError("the -O child interpreter did not run with asserts stripped")
        bad = 0
        for (fn, args, stream, entropy, want), got in zip(items, res["outcomes"]):
            if got != want:
                bad += 1
                if bad <= 4:
                    c.impl_fail.append(f"{fn}: under `{label}` the same call returned `{got[:120]}`, `{want[:120]}` in a default interpreter")
                    try:
                        c.calls.append({"fn": fn, "args": [enc(a) for a in args], "entropy": entropy.hex(), "stream": stream, "interpreter": label})
                    except TypeError:
                        pass
        c.desc.setdefault("differing", {})[label] = bad
    del OPT_POOL[:]
    _OPT_SLOTS.clear()
    _OPT_COUNT.clear()
    _OPT_SHAPES.clear()
    return c


def reply_value(reply):
    """('ok', [tokens]) or ('err', class)."""
    parts = reply.split("\t")
    if parts[0] == "ok":
        return "ok", parts[1:]
    return "err", parts[1]

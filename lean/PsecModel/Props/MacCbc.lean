import PsecModel.Props.C07
/-!
# Composition: the CBC-MAC of `psec.mac` is the last block of `psec.des.encrypt_tdes_cbc`

ISO 9797-1 algorithm 1 is "CBC-encrypt the padded message under a zero IV and keep the last block". `C07` proves
`generate_cbc_mac` equal to the standard's recurrence and `C19` proves `encrypt_tdes_cbc` equal to textbook CBC; this file
joins the two on the library's own functions, so a peer that computes its MAC with a general-purpose CBC routine agrees
with `generate_cbc_mac`. Obligation of C07.
-/
namespace Psec.Props.MacCbc
open Psec Psec.Props.C07 Psec.Props.C08 Psec.Props.C19

/-- **CBC-MAC = leftmost `n` bytes of the last ciphertext block of CBC under a zero IV over the padded message** -/
theorem cbcMac_is_last_cbc_block (c : Ciphers) (hc : c.Lawful) (key data : Bytes) (padding : Int) (n : Nat)
    (alg : Option Mac.Algo) (halg : alg = none ∨ alg = some .des)
    (hk : tdesKeyOk key = true) (hp : padding = 1 ∨ padding = 2 ∨ padding = 3)
    (hfit : padding = 3 → data.length * 8 < 256 ^ 8) :
    ∃ ct, Des.encryptTdesCbc c key (Spec.zeroBytes 8) (Spec.padBy (methodOf padding) data 8) = .ok ct ∧
      Mac.generateCbcMac c key data padding (some (n : Int)) alg = .ok ((lastN ct 8).take n) := by
  have hpm := padBy_posMult (methodOf padding) data 8 (by decide) (by
    intro h; apply hfit; unfold methodOf at h; rcases hp with h1 | h1 | h1 <;> simp_all)
  generalize hP : Spec.padBy (methodOf padding) data 8 = P at hpm
  obtain ⟨m, hm⟩ : ∃ m, P.length = (m + 1) * 8 := by
    unfold PosMult at hpm
    obtain ⟨h0, hmod⟩ := hpm
    refine ⟨P.length / 8 - 1, ?_⟩
    omega
  have hd : DataOk 8 P := by unfold DataOk; omega
  have hz : (Spec.zeroBytes 8).length = 8 := by simp [Spec.zeroBytes]
  have hdiv : P.length / 8 = m + 1 := by omega
  refine ⟨_, tdes_cbc_enc_ok c key _ P hk hz hd, ?_⟩
  rw [cbcMac_des_eq_mac1 c hc key data padding n alg halg hk hp hfit, hP, hdiv]
  have hE : ∀ b : Bytes, b.length = 8 → (c.tdesE key b).length = 8 := fun b hb => hc.tdes_enc_len key b hk hb
  rw [cbcEnc_last (c.tdesE key) 8 m _ P hE hm,
      cbcEnc_chain (c.tdesE key) 8 (m + 1) P.length _ P (by decide) hm (by omega)]
  rfl

theorem ecb_one (f : Bytes → Bytes) (b : Bytes) (hb : b.length = 8) : ecbUpdate f 8 (b.length / 8) b = f b := by
  rw [hb]
  show ecbUpdate f 8 1 b = f b
  simp only [ecbUpdate, List.append_nil]
  rw [List.take_of_length_le (by omega)]

/-- **retail MAC = `E_{K1}(D_{K2}(last CBC block under K1))`**, spelt with the library's own `encrypt_tdes_cbc`,
`decrypt_tdes_ecb` and `encrypt_tdes_ecb` (keys of any admissible, possibly different, sizes) -/
theorem retailMac_is_cbc_then_ecb (c : Ciphers) (hc : c.Lawful) (key1 key2 data : Bytes) (padding : Int) (n : Nat)
    (hk1 : tdesKeyOk key1 = true) (hk2 : tdesKeyOk key2 = true) (hp : padding = 1 ∨ padding = 2 ∨ padding = 3)
    (hfit : padding = 3 → data.length * 8 < 256 ^ 8) :
    ∃ ct d e, Des.encryptTdesCbc c key1 (Spec.zeroBytes 8) (Spec.padBy (methodOf padding) data 8) = .ok ct ∧
      Des.decryptTdesEcb c key2 (lastN ct 8) = .ok d ∧ Des.encryptTdesEcb c key1 d = .ok e ∧
      Mac.generateRetailMac c key1 key2 data padding (some (n : Int)) = .ok (e.take n) := by
  have hpm := padBy_posMult (methodOf padding) data 8 (by decide) (by
    intro h; apply hfit; unfold methodOf at h; rcases hp with h1 | h1 | h1 <;> simp_all)
  generalize hP : Spec.padBy (methodOf padding) data 8 = P at hpm
  obtain ⟨m, hm⟩ : ∃ m, P.length = (m + 1) * 8 := by
    unfold PosMult at hpm
    obtain ⟨h0, hmod⟩ := hpm
    refine ⟨P.length / 8 - 1, ?_⟩
    omega
  have hd : DataOk 8 P := by unfold DataOk; omega
  have hz : (Spec.zeroBytes 8).length = 8 := by simp [Spec.zeroBytes]
  have hdiv : P.length / 8 = m + 1 := by omega
  have hE : ∀ b : Bytes, b.length = 8 → (c.tdesE key1 b).length = 8 := fun b hb => hc.tdes_enc_len key1 b hk1 hb
  have hlast : lastN (cbcEncUpdate (c.tdesE key1) 8 (P.length / 8) (Spec.zeroBytes 8) P).1 8 =
      Spec.chain (c.tdesE key1) (Spec.zeroBytes 8) (Spec.blocksOf 8 P.length P) := by
    rw [hdiv, cbcEnc_last (c.tdesE key1) 8 m _ P hE hm,
        cbcEnc_chain (c.tdesE key1) 8 (m + 1) P.length _ P (by decide) hm (by omega)]
  have hHl : (Spec.chain (c.tdesE key1) (Spec.zeroBytes 8) (Spec.blocksOf 8 P.length P)).length = 8 := by
    rw [← hlast, hdiv, cbcEnc_last (c.tdesE key1) 8 m _ P hE hm]
    have hlen := cbcEnc_length (c.tdesE key1) 8 (m + 1) (Spec.zeroBytes 8) P hE hm
    have := cbcEnc_last (c.tdesE key1) 8 m (Spec.zeroBytes 8) P hE hm
    rw [← this]; unfold lastN; rw [List.length_drop, hlen]; omega
  generalize hH : Spec.chain (c.tdesE key1) (Spec.zeroBytes 8) (Spec.blocksOf 8 P.length P) = H at hlast hHl
  have hDl : (c.tdesD key2 H).length = 8 := hc.tdes_dec_len key2 H hk2 hHl
  refine ⟨_, c.tdesD key2 H, c.tdesE key1 (c.tdesD key2 H), tdes_cbc_enc_ok c key1 _ P hk1 hz hd, ?_, ?_, ?_⟩
  · rw [hlast, tdes_ecb_dec_ok c key2 H hk2 (by unfold DataOk; omega), ecb_one _ _ hHl]
  · rw [tdes_ecb_enc_ok c key1 _ hk1 (by unfold DataOk; omega), ecb_one _ _ hDl]
  · rw [retailMac_eq_mac3 c hc key1 key2 data padding n hk1 hk2 hp hfit, hP]
    unfold Spec.mac3
    rw [hH]

end Psec.Props.MacCbc

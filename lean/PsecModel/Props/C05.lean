import PsecModel.Model.Pinblock
import PsecModel.Lemmas.Hex
import PsecModel.Props.C19
/-!
# C05 — PIN blocks have exactly the ISO 9564-1 layout

The encoders of the model equal the nibble-level construction of `Spec/ISO9564.lean`, for every PIN of
4–12 ASCII digits, every admissible PAN, every entropy stream (format 3) and every 8 random bytes (format 4).
-/
namespace Psec.Props.C05
open Psec Psec.Spec Psec.Pinblock

theorem pinOk_iff (pin : PyStr) : pinOk pin = true ↔ (4 ≤ pin.length ∧ pin.length ≤ 12 ∧ asciiNumeric pin = true) := by
  unfold pinOk; simp [and_assoc]

theorem panOk13_iff (pan : PyStr) : panOk13 pan = true ↔ (13 ≤ pan.length ∧ asciiNumeric pan = true) := by
  unfold panOk13; simp

theorem hexNib_F : hexNib 70 = 15 := by decide
theorem hexNib_A : hexNib 65 = 10 := by decide

theorem map_hexNib_replicate (k c : Nat) : (List.replicate k c).map hexNib = List.replicate k (hexNib c) := by simp

/-- the hex body `pin ‖ fill` decodes to the packed nibbles `digits ‖ fill nibbles` -/
theorem a2bHex_pin_fill (pin fill : PyStr) (hp : asciiNumeric pin = true) (hf : asciiHexchar fill = true)
    (hl : (pin.length + fill.length) % 2 = 0) :
    a2bHex (pin ++ fill) = some (nibsToBytes (digitsOf pin ++ fill.map hexNib)) := by
  rw [a2bHex_of_hex _ (by rw [asciiHexchar_append, asciiNumeric_hexchar pin hp, hf]; rfl) (by simpa using hl)]
  rw [List.map_append, digitsOf_eq_hexNib pin hp]

theorem digitsOf_length (s : PyStr) : (digitsOf s).length = s.length := by simp [digitsOf]

/-- **Format 2** is bit-for-bit the standard's block -/
theorem iso2_eq_spec (pin : PyStr) (h : pinOk pin = true) : encodePinblockIso2 pin = .ok (Spec.iso2 pin) := by
  obtain ⟨h4, h12, hn⟩ := (pinOk_iff pin).mp h
  unfold encodePinblockIso2 Spec.iso2
  simp only [h, not_true_eq_false, if_false]
  rw [a2bHex_pin_fill pin _ hn (asciiHexchar_replicate _ 70 (by decide)) (by simp; omega)]
  simp only [map_hexNib_replicate, hexNib_F, List.cons_append, List.nil_append, nibsToBytes_cons2]
  have : pin.length + 32 = 2 * 16 + pin.length := by omega
  rw [this]

/-- the PAN block of the model equals the standard's account-number field -/
theorem panBlock_eq_spec (pan : PyStr) (h : panOk13 pan = true) : panBlock pan = some (nibsToBytes (panNibs pan)) := by
  obtain ⟨h13, hn⟩ := (panOk13_iff pan).mp h
  unfold panBlock panNibs
  have hsub : asciiNumeric ((pan.drop (pan.length - 13)).take 12) = true := by
    simp only [asciiNumeric, List.all_eq_true] at hn ⊢
    intro x hx
    exact hn x (List.mem_of_mem_drop (List.mem_of_mem_take hx))
  have hlen : ((pan.drop (pan.length - 13)).take 12).length = 12 := by
    rw [List.length_take, List.length_drop]; omega
  rw [a2bHex_of_hex _ (asciiNumeric_hexchar _ hsub) (by rw [hlen])]
  rw [digitsOf_eq_hexNib _ hsub]
  simp only [Option.map_some, List.cons_append, List.nil_append, nibsToBytes_cons2]
  congr 3
  -- (digits.dropLast).drop (len-1-12) = digits of (pan.drop (n-13)).take 12
  unfold digitsOf
  rw [List.dropLast_eq_take, List.length_map, List.length_take, List.length_map, ← List.map_take, ← List.map_drop]
  congr 1
  have e1 : min (pan.length - 1) pan.length - 12 = pan.length - 13 := by omega
  rw [e1, List.drop_take]
  have e2 : pan.length - 1 - (pan.length - 13) = 12 := by omega
  rw [e2]

theorem nibsOk_plain (ctrl : Nat) (pin : PyStr) (fill : Nibs) (hc : ctrl < 16) (hn : asciiNumeric pin = true)
    (h12 : pin.length ≤ 12) (hf : ∀ x ∈ fill, x < 16) (hl : (pin.length + fill.length) % 2 = 0) :
    NibsOk ([ctrl, pin.length] ++ digitsOf pin ++ fill) := by
  constructor
  · intro x hx
    simp only [List.cons_append, List.nil_append, List.mem_cons, List.mem_append] at hx
    rcases hx with hx | hx | hx | hx
    · omega
    · omega
    · have := digitsOf_lt10 pin hn x hx; omega
    · exact hf x hx
  · simp [digitsOf_length]; omega

theorem panNibs_ok (pan : PyStr) (h : panOk13 pan = true) : NibsOk (panNibs pan) ∧ (panNibs pan).length = 16 := by
  obtain ⟨h13, hn⟩ := (panOk13_iff pan).mp h
  unfold panNibs
  have hl : ((digitsOf pan).dropLast.drop ((digitsOf pan).dropLast.length - 12)).length = 12 := by
    simp [digitsOf_length]; omega
  refine ⟨⟨?_, by simp only [List.length_append, hl]; rfl⟩, by simp only [List.length_append, hl]; rfl⟩
  intro x hx
  simp only [List.mem_append] at hx
  rcases hx with hx | hx
  · simp at hx; omega
  · have := digitsOf_lt10 pan hn x ((List.dropLast_subset _ (List.mem_of_mem_drop hx))); omega

/-- **Format 0** is bit-for-bit the standard's block -/
theorem iso0_eq_spec (pin pan : PyStr) (hpin : pinOk pin = true) (hpan : panOk13 pan = true) :
    encodePinblockIso0 pin pan = .ok (Spec.iso0 pin pan) := by
  obtain ⟨h4, h12, hn⟩ := (pinOk_iff pin).mp hpin
  unfold encodePinblockIso0 Spec.iso0 Spec.iso0Plain
  simp only [hpin, hpan, not_true_eq_false, if_false]
  rw [a2bHex_pin_fill pin _ hn (asciiHexchar_replicate _ 70 (by decide)) (by simp; omega), panBlock_eq_spec pan hpan]
  simp only [map_hexNib_replicate, hexNib_F, Tools.xor_eq]
  have hfill : ∀ x ∈ List.replicate (14 - pin.length) 15, x < 16 := by intro x hx; simp at hx; omega
  have hok := nibsOk_plain 0 pin (List.replicate (14 - pin.length) 15) (by decide) hn h12 hfill (by simp; omega)
  obtain ⟨hpok, hpl⟩ := panNibs_ok pan hpan
  rw [nibsToBytes_nibXor _ _ hok hpok (by simp [digitsOf_length, hpl]; omega)]
  simp only [List.cons_append, List.nil_append, nibsToBytes_cons2, Nat.zero_mul, Nat.zero_add, List.append_assoc]

/-- the fill produced by `k` draws of `choice("ABCDEF")`: every character is `A`–`F` -/
theorem choices_alphabet : ∀ (k : Nat) (e : Bytes) (s : PyStr) (r : Bytes), choices k e = some (s, r) →
    s.length = k ∧ ∀ ch ∈ s, 65 ≤ ch ∧ ch ≤ 70
  | 0, e, s, r, h => by simp [choices] at h; rw [h.1]; simp
  | k + 1, e, s, r, h => by
    simp only [choices] at h
    cases h1 : choice6 e with
    | none => rw [h1] at h; cases h
    | some p =>
      obtain ⟨i, e'⟩ := p
      rw [h1] at h
      simp only [] at h
      cases h2 : choices k e' with
      | none => rw [h2] at h; cases h
      | some q =>
        obtain ⟨s', e''⟩ := q
        rw [h2] at h
        simp only [Option.some.injEq, Prod.mk.injEq] at h
        obtain ⟨ih1, ih2⟩ := choices_alphabet k e' s' e'' h2
        have hi : i < 6 := by
          clear h h2 ih1 ih2
          induction e with
          | nil => simp [choice6] at h1
          | cons b t iht =>
            simp only [choice6] at h1
            split at h1
            · simp only [Option.some.injEq, Prod.mk.injEq] at h1; omega
            · exact iht h1
        rw [← h.1]
        refine ⟨by simp [ih1], ?_⟩
        intro ch hch
        simp only [List.mem_cons] at hch
        rcases hch with hch | hch
        · omega
        · exact ih2 ch hch

theorem fill_hex (s : PyStr) (h : ∀ ch ∈ s, 65 ≤ ch ∧ ch ≤ 70) : asciiHexchar s = true ∧ ∀ x ∈ s.map hexNib, 10 ≤ x ∧ x ≤ 15 := by
  constructor
  · simp only [asciiHexchar, List.all_eq_true]
    intro x hx; have := h x hx
    simp [isHexC, isDigitC]; omega
  · intro x hx
    simp only [List.mem_map] at hx
    obtain ⟨ch, hch, rfl⟩ := hx
    have := h ch hch
    unfold hexNib hexVal
    have h1 : ¬ (48 ≤ ch ∧ ch ≤ 57) := by omega
    simp only [h1, if_false, this, and_self, if_true, Option.getD_some]
    omega

/-- **Format 3**: for every entropy stream that yields the ten draws, the block is the standard's block with
control 3, the length, the PIN digits and fill nibbles that are all in `A–F` -/
theorem iso3_layout (pin pan : PyStr) (draws : Bytes) (fill : PyStr)
    (hpin : pinOk pin = true) (hpan : panOk13 pan = true) (hd : choices 10 draws = some (fill, [])) :
    encodePinblockIso3 pin pan draws = .ok (Spec.iso3 pin pan (fill.map hexNib)) ∧
    (∀ x ∈ (fill.map hexNib).take (14 - pin.length), 10 ≤ x ∧ x ≤ 15) := by
  obtain ⟨h4, h12, hn⟩ := (pinOk_iff pin).mp hpin
  obtain ⟨hfl, hfa⟩ := choices_alphabet 10 draws fill [] hd
  obtain ⟨hfh, hfn⟩ := fill_hex fill hfa
  refine ⟨?_, fun x hx => hfn x (List.mem_of_mem_take hx)⟩
  unfold encodePinblockIso3 Spec.iso3 Spec.iso3Plain
  simp only [hpin, hpan, not_true_eq_false, if_false, hd, ne_eq, not_true_eq_false]
  have hth : asciiHexchar (fill.take (14 - pin.length)) = true := by
    simp only [asciiHexchar, List.all_eq_true] at hfh ⊢
    intro x hx; exact hfh x (List.mem_of_mem_take hx)
  have htl : (fill.take (14 - pin.length)).length = 14 - pin.length := by rw [List.length_take]; omega
  rw [a2bHex_pin_fill pin _ hn hth (by rw [htl]; omega), panBlock_eq_spec pan hpan]
  simp only [Tools.xor_eq, List.map_take]
  have hfill : ∀ x ∈ (fill.map hexNib).take (14 - pin.length), x < 16 := by
    intro x hx; have := hfn x (List.mem_of_mem_take hx); omega
  have hok := nibsOk_plain 3 pin ((fill.map hexNib).take (14 - pin.length)) (by decide) hn h12 hfill
    (by rw [List.length_take, List.length_map]; omega)
  obtain ⟨hpok, hpl⟩ := panNibs_ok pan hpan
  rw [nibsToBytes_nibXor _ _ hok hpok (by simp [digitsOf_length, hpl, hfl]; omega)]
  simp only [List.cons_append, List.nil_append, nibsToBytes_cons2, Nat.zero_mul, Nat.zero_add, List.append_assoc]
  have e3 : pin.length + 48 = 3 * 16 + pin.length := by omega
  rw [e3]

theorem toHexU_hex (b : Bytes) : asciiHexchar (toHexU b) = true ∧ (toHexU b).map hexNib = bytesToNibs b ∧ (toHexU b).length = 2 * b.length := by
  rw [toHexU_eq]
  have hlt := bytesToNibs_lt b
  refine ⟨?_, ?_, by simp [bytesToNibs_length]⟩
  · simp only [asciiHexchar, List.all_map, List.all_eq_true]
    intro x hx
    exact (hexVal_hexDigitU_fin ⟨x, hlt x hx⟩).2.1
  · rw [List.map_map]
    conv => rhs; rw [← List.map_id (bytesToNibs b)]
    apply List.map_congr_left
    intro x hx
    simp [hexNib, hexVal_hexDigitU x (hlt x hx)]

/-- **Format 4 PIN field**: control 4, length, PIN digits, fill `A` up to nibble 16, then exactly the 8 random bytes -/
theorem iso4_pin_field_layout (pin : PyStr) (rnd : Bytes) (hpin : pinOk pin = true) (hr : rnd.length = 8) :
    encodePinFieldIso4 pin rnd = .ok (Spec.iso4PinField pin rnd) := by
  obtain ⟨h4, h12, hn⟩ := (pinOk_iff pin).mp hpin
  unfold encodePinFieldIso4 Spec.iso4PinField
  simp only [hpin, hr, not_true_eq_false, if_false, ne_eq]
  obtain ⟨hh, hm, hl⟩ := toHexU_hex rnd
  have hL : hexDigitL (pin.length % 16) = hexDigitL pin.length := by rw [Nat.mod_eq_of_lt (by omega)]
  have hhex : asciiHexchar ([52, hexDigitL (pin.length % 16)] ++ pin ++ List.replicate (14 - pin.length) 65 ++ toHexU rnd) = true := by
    rw [asciiHexchar_append, asciiHexchar_append, asciiHexchar_append, hh, asciiNumeric_hexchar pin hn,
      asciiHexchar_replicate _ 65 (by decide)]
    have := (hexVal_hexDigitU_fin ⟨pin.length % 16, Nat.mod_lt _ (by decide)⟩).2.2.2
    simp [asciiHexchar, this]; decide
  rw [a2bHex_of_hex _ hhex (by simp [hl, hr]; omega)]
  simp only [List.map_append, List.map_cons, List.map_nil, hm, digitsOf_eq_hexNib pin hn, map_hexNib_replicate, hexNib_A]
  have h52 : hexNib 52 = 4 := by decide
  have hlen : hexNib (hexDigitL (pin.length % 16)) = pin.length := by
    rw [Nat.mod_eq_of_lt (show pin.length < 16 by omega)]
    simp [hexNib, hexVal_hexDigitL _ (show pin.length < 16 by omega)]
  rw [h52, hlen]
  have hev : ([4, pin.length] ++ digitsOf pin ++ List.replicate (14 - pin.length) 10).length % 2 = 0 := by
    simp [digitsOf_length]; omega
  rw [nibsToBytes_append _ _ hev, nibsToBytes_bytesToNibs]

/-- **Format 4 PAN field**: length nibble `max(0, n−12)`, PAN right-justified in at least 12 digits, zero padding -/
theorem iso4_pan_field_eq_spec (pan : PyStr) (h1 : 1 ≤ pan.length) (h19 : pan.length ≤ 19) (hn : asciiNumeric pan = true) :
    encodePanFieldIso4 pan = .ok (Spec.iso4PanField pan) := by
  unfold encodePanFieldIso4 Spec.iso4PanField
  have hg : ¬ (pan.length < 1 ∨ pan.length > 19 ∨ ¬ asciiNumeric pan = true) := by
    have : pan ≠ [] := by intro e; rw [e] at h1; simp at h1
    simp [hn, this]; omega
  simp only [hg, if_false]
  have hd1 : natToDec (pan.length - 12) = [48 + (pan.length - 12)] := by
    have : pan.length - 12 < 10 := by omega
    simp [natToDec, natToDecAux, this]
  rw [hd1]
  unfold ljust rjust
  have hnum : asciiNumeric ([48 + (pan.length - 12)] ++ (List.replicate (12 - pan.length) 48 ++ pan)) = true := by
    rw [asciiNumeric_append, asciiNumeric_append, hn]
    simp [asciiNumeric, isDigitC]; omega
  have hlen1 : ([48 + (pan.length - 12)] ++ (List.replicate (12 - pan.length) 48 ++ pan)).length ≤ 32 := by
    simp; omega
  have hall : asciiNumeric ([48 + (pan.length - 12)] ++ (List.replicate (12 - pan.length) 48 ++ pan) ++
      List.replicate (32 - ([48 + (pan.length - 12)] ++ (List.replicate (12 - pan.length) 48 ++ pan)).length) 48) = true := by
    rw [asciiNumeric_append, hnum]; simp [asciiNumeric, isDigitC]
  rw [a2bHex_of_hex _ (asciiNumeric_hexchar _ hall) (by simp; omega), digitsOf_eq_hexNib _ hall]
  congr 2
  simp [digitsOf, List.map_append, List.map_replicate]

/-- **Format 4 enciphered block** `= E(E(PIN field) ⊕ PAN field)` -/
theorem iso4_encipher_eq (c : Ciphers) (hc : c.Lawful) (key : Bytes) (pin pan : PyStr) (rnd : Bytes)
    (hk : aesKeyOk key = true) (hpin : pinOk pin = true) (hr : rnd.length = 8)
    (h1 : 1 ≤ pan.length) (h19 : pan.length ≤ 19) (hn : asciiNumeric pan = true) :
    encipherPinblockIso4 c key pin pan rnd = .ok (Spec.iso4Encipher (c.aesE key) pin pan rnd) := by
  obtain ⟨h4, h12, hpn⟩ := (pinOk_iff pin).mp hpin
  unfold encipherPinblockIso4 Spec.iso4Encipher
  rw [iso4_pin_field_layout pin rnd hpin hr, iso4_pan_field_eq_spec pan h1 h19 hn]
  simp only []
  have hfl : (Spec.iso4PinField pin rnd).length = 16 := by
    unfold Spec.iso4PinField
    rw [List.length_append, nibsToBytes_length _ (by simp [digitsOf_length]; omega)]
    simp [digitsOf_length, hr]; omega
  have hdo : Props.C19.DataOk 16 (Spec.iso4PinField pin rnd) := ⟨by rw [hfl]; decide, by rw [hfl]⟩
  rw [Props.C19.aes_ecb_enc_ok c key _ hk hdo, hfl]
  have h1616 : 16 / 16 = 1 := by decide
  have htk : (Spec.iso4PinField pin rnd).take 16 = Spec.iso4PinField pin rnd := List.take_of_length_le (by omega)
  simp only [h1616, ecbUpdate, htk, List.append_nil, Tools.xor_eq]
  have hel : (c.aesE key (Spec.iso4PinField pin rnd)).length = 16 := hc.aes_enc_len key _ hk hfl
  have hdo2 : Props.C19.DataOk 16 (xorBytes (c.aesE key (Spec.iso4PinField pin rnd)) (Spec.iso4PanField pan)) :=
    ⟨by rw [xorBytes_length, hel]; decide, by rw [xorBytes_length, hel]⟩
  rw [Props.C19.aes_ecb_enc_ok c key _ hk hdo2, xorBytes_length, hel]
  have htk2 : (xorBytes (c.aesE key (Spec.iso4PinField pin rnd)) (Spec.iso4PanField pan)).take 16 = _ :=
    List.take_of_length_le (by rw [xorBytes_length, hel]; omega)
  simp only [h1616, ecbUpdate, htk2, List.append_nil]

/-! ## non-vacuity -/
example : (encodePinblockIso0 (str "1234") (str "5555555551234567")).toOption = some (hexb "041261AAAAEDCBA9") := by decide +kernel
example : (encodePinFieldIso4 (str "1234") (hexb "548ED7FD65495950")).toOption = some (hexb "441234AAAAAAAAAA548ED7FD65495950") := by decide +kernel

end Psec.Props.C05

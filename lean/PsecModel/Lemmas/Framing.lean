import PsecModel.Lemmas.WrapAll
import PsecModel.Lemmas.Card
import PsecModel.Props.C05
/-! Printability / hex facts and the shape of `Blocks.dump`'s output. -/
namespace Psec.Tr31
open Psec

def isUpperHexC (c : Nat) : Bool := isDigitC c || (decide (65 ≤ c) && decide (c ≤ 70))

theorem hexDigitU_upper_fin : ∀ n : Fin 16, isUpperHexC (hexDigitU n.val) = true ∧ isPrintC (hexDigitU n.val) = true := by decide

theorem toHexU_chars (b : Bytes) : (toHexU b).all isUpperHexC = true ∧ asciiPrintable (toHexU b) = true := by
  rw [toHexU_eq]
  have hlt := bytesToNibs_lt b
  constructor
  · rw [List.all_map, List.all_eq_true]; intro x hx; exact (hexDigitU_upper_fin ⟨x, hlt x hx⟩).1
  · unfold asciiPrintable; rw [List.all_map, List.all_eq_true]; intro x hx; exact (hexDigitU_upper_fin ⟨x, hlt x hx⟩).2

/-- `bytes.fromhex` inverts `.hex().upper()` -/
theorem fromHexWs_toHexU (b : Bytes) : fromHexWs (toHexU b) = some b := by
  obtain ⟨hh, hm, hl⟩ := Props.C05.toHexU_hex b
  rw [fromHexWs_of_hex _ hh (by rw [hl]; omega), a2bHex_of_hex _ hh (by rw [hl]; omega), hm, nibsToBytes_bytesToNibs]

theorem dumpOne_printable (id data t : PyStr) (h : BlockOK id data) (hd : dumpOne id data = .ok t) :
    asciiPrintable t = true := by
  unfold dumpOne at hd
  split at hd
  · injection hd with hd; subst hd
    rw [asciiPrintable_append, asciiPrintable_append, alnum_printable _ h.idan, hex2U_printable _ (by omega), h.dpr]; rfl
  · split at hd
    · rename_i hl
      injection hd with hd; subst hd
      rw [asciiPrintable_append, asciiPrintable_append, asciiPrintable_append, alnum_printable _ h.idan, hex4U_printable _ hl, h.dpr]; rfl
    · cases hd

theorem dumpAll_printable (d : Dict) (t : PyStr) (h : ∀ p ∈ d, BlockOK p.1 p.2) (hd : dumpAll d = .ok t) :
    asciiPrintable t = true := by
  induction d generalizing t with
  | nil => simp only [dumpAll] at hd; injection hd with hd; subst hd; rfl
  | cons p r ih =>
    obtain ⟨id, data⟩ := p
    simp only [dumpAll] at hd
    cases h1 : dumpOne id data with
    | error e => rw [h1] at hd; cases hd
    | ok a =>
      rw [h1] at hd
      cases h2 : dumpAll r with
      | error e => rw [h2] at hd; cases hd
      | ok b =>
        rw [h2] at hd; simp only [] at hd
        injection hd with hd; subst hd
        rw [asciiPrintable_append, dumpOne_printable id data a (h (id, data) (by simp)) h1, ih b (fun q hq => h q (by simp [hq])) h2]; rfl

/-- the shape of `Blocks.dump`'s result: the blocks in order, then at most one pad block `PB` of zeros, counted -/
theorem blocksDump_shape (d : Dict) (bs n : Nat) (s : PyStr) (hbs : 0 < bs) (hbs16 : bs ≤ 16)
    (h : blocksDump d bs = .ok (n, s)) :
    ∃ body pad, dumpAll d = .ok body ∧ s = body ++ pad ∧ n ≤ 99 ∧
      ((pad = [] ∧ n = d.length) ∨
       (∃ p, 1 ≤ p ∧ p ≤ bs ∧ pad = [80, 66] ++ hex2U (4 + p) ++ zerosS p ∧ n = d.length + 1)) := by
  unfold blocksDump at h
  cases h1 : dumpAll d with
  | error e => rw [h1] at h; cases h
  | ok t =>
    rw [h1] at h; simp only [] at h
    split at h
    · split at h
      · cases h
      · injection h with h; injection h with e1 e2
        have := Nat.mod_lt (t.length + 4) hbs
        exact ⟨t, _, rfl, e2.symm, by omega, Or.inr ⟨bs - (t.length + 4) % bs, by omega, by omega, rfl, e1.symm⟩⟩
    · split at h
      · cases h
      · injection h with h; injection h with e1 e2
        exact ⟨t, [], rfl, by simp [← e2], by omega, Or.inl ⟨rfl, e1.symm⟩⟩

theorem blocksDump_printable (d : Dict) (bs n : Nat) (s : PyStr) (hbs : 0 < bs) (hbs16 : bs ≤ 16)
    (hw : ∀ p ∈ d, BlockOK p.1 p.2) (h : blocksDump d bs = .ok (n, s)) : asciiPrintable s = true := by
  obtain ⟨body, pad, hb, hs, _, hp⟩ := blocksDump_shape d bs n s hbs hbs16 h
  rw [hs, asciiPrintable_append, dumpAll_printable d body hw hb]
  rcases hp with ⟨rfl, _⟩ | ⟨p, _, hp16, rfl, _⟩
  · rfl
  · rw [asciiPrintable_append, asciiPrintable_append, hex2U_printable _ (by omega), zerosS_printable]; rfl

theorem assemble_printable (h : Header) (hw : h.WF) (len n : Nat) (blocks : PyStr) (hl : len ≤ 9999) (hn : n ≤ 99)
    (hb : asciiPrintable blocks = true) : asciiPrintable (h.assemble len n blocks) = true := by
  unfold Header.assemble
  rw [zfill4_eq _ hl, zfill2_eq _ hn]
  have hv := (versionOk_bs _ hw.ver).choose_spec.choose_spec.2.2.2.2.2.2.1
  simp only [asciiPrintable_append, alnum_printable _ hv, alnum_printable _ (numeric_alnum _ (dec4s_numeric len)),
    alnum_printable _ hw.ku.2, alnum_printable _ hw.alg.2, alnum_printable _ hw.mou.2, alnum_printable _ hw.vn.2,
    alnum_printable _ hw.ex.2, alnum_printable _ (numeric_alnum _ (dec2s_numeric n)), alnum_printable _ hw.res.2, hb, Bool.and_self]

/-- characters 1..4 of an assembled header are the zero-filled decimal of the length argument -/
theorem assemble_lenfield (h : Header) (hw : h.WF) (len n : Nat) (blocks tail : PyStr) (hl : len ≤ 9999) :
    ((h.assemble len n blocks ++ tail).take 5).drop 1 = dec4s len := by
  unfold Header.assemble
  rw [zfill4_eq _ hl]
  obtain ⟨_, _, _, _, _, _, _, hv1, _⟩ := versionOk_bs _ hw.ver
  obtain ⟨v, hv⟩ : ∃ v, h.versionId = [v] := by
    match h.versionId, hv1 with
    | [v], _ => exact ⟨v, rfl⟩
  rw [hv]
  simp [dec4s]

end Psec.Tr31

"""Batch search for PVV / CVV inputs whose final cipher block holds no decimal nibble at all (prob. 1.5e-7).
Uses the cryptography package directly with large ECB batches. Appends to the corpus files."""
import json, os, random, warnings
warnings.filterwarnings("ignore")
from cryptography.hazmat.primitives.ciphers import Cipher, algorithms, modes

def ecb(key, data):
    return Cipher(algorithms.TripleDES(key), modes.ECB()).encryptor().update(data)

BASE = os.path.join(os.path.dirname(os.path.dirname(os.path.dirname(os.path.abspath(__file__)))), "corpus")
rng = random.Random(424242)
LETTERS = set("abcdef")

def all_letters(block_hex):
    return not (set(block_hex) - LETTERS)

def pvv(n_hits=4, batch=400000):
    out = []
    tries = 0
    while len(out) < n_hits and tries < 80:
        tries += 1
        ks = rng.choice([8, 16, 24])
        pvk = bytes(rng.getrandbits(8) for _ in range(ks))
        acct = "".join(rng.choice("0123456789") for _ in range(7))
        pvki = rng.choice("0123456789")
        # TSP = acct(7) + 4 more account digits + pvki + pin(4): enumerate 4 digits x 10^4 pins x 10 = up to 10^8; sample batch
        start = rng.randrange(0, 10 ** 8 - batch)
        tsps = [acct + ("%08d" % (start + i))[:4] + pvki + ("%08d" % (start + i))[4:] for i in range(batch)]
        data = bytes.fromhex("".join(tsps))
        enc = ecb(pvk, data).hex()
        for i in range(batch):
            blk = enc[16 * i:16 * i + 16]
            if all_letters(blk):
                t = tsps[i]
                pan = rng.choice(["", "9", "12", "40012"]) + t[:11] + rng.choice("0123456789")
                out.append({"pvk": pvk.hex(), "pvki": t[11], "pin": t[12:], "pan": pan, "decimal_nibbles": 0})
    return out

def cvv(n_hits=3, batch=400000):
    out = []
    tries = 0
    while len(out) < n_hits and tries < 80:
        tries += 1
        cvk = bytes(rng.getrandbits(8) for _ in range(16))
        pan = "".join(rng.choice("0123456789") for _ in range(16))
        # vary expiry (4) + service code (3) = 10^7; second half of the block = exp+svc+0s
        start = rng.randrange(0, 10 ** 7 - batch)
        r1 = ecb(cvk[:8], bytes.fromhex(pan))
        tails = ["%07d" % (start + i) for i in range(batch)]
        x = bytearray()
        for t in tails:
            b2 = bytes.fromhex((t + "0" * 9))
            x += bytes(a ^ b for a, b in zip(r1, b2))
        enc = ecb(cvk, bytes(x)).hex()
        for i in range(batch):
            if all_letters(enc[16 * i:16 * i + 16]):
                t = tails[i]
                out.append({"cvk": cvk.hex(), "pan": pan, "expiry": t[:4], "svc": t[4:], "decimal_nibbles": 0})
    return out

if __name__ == "__main__":
    p = pvv(); c = cvv()
    with open(os.path.join(BASE, "C10", "rare.jsonl"), "a") as fh:
        for e in p: fh.write(json.dumps(e) + "\n")
    with open(os.path.join(BASE, "C09", "rare.jsonl"), "a") as fh:
        for e in c: fh.write(json.dumps(e) + "\n")
    print(len(p), len(c))

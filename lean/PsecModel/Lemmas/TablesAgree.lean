import PsecModel.Lemmas.Tables.Ascii
import PsecModel.Lemmas.Tables.Version
import PsecModel.Lemmas.Tables.Dispatch
import PsecModel.Lemmas.Tables.Card
import PsecModel.Lemmas.Tables.CardCvv
import PsecModel.Lemmas.Tables.CardPvv
import PsecModel.Lemmas.Tables.CardIbm
/-!
# The model's tables are the tables in the source

`PsecModel/Generated/Tables.lean` is regenerated from `/repo/psec/*.py` on every run (`harness/tables.py`, purely
syntactic). The theorems live in `Lemmas/Tables/{Ascii,Version,Dispatch,Card,CardCvv,CardPvv,CardIbm}.lean` (one module per group of tables, so that a table
that stops agreeing takes down only the theorems about it); each states that a function of the hand-written model agrees with the regenerated table
**on every key**, not only on the listed ones, so a table edited in the source (an entry changed, added or removed)
leaves an obligation that no longer checks. The order of the entries does not matter. Every generated table is an
`Option`: `none` means the translator did not recognise the table's shape in the source (moved, computed, renamed
beyond recognition); the theorem about it is then vacuous and the run records the tie as unavailable.
-/
namespace Psec.Tables
open Psec Psec.Generated.Tables

/-! ## non-vacuity on the tree these were written against: every table is recognised -/

/-- how many of the fourteen tables the translator recognised in the source of this run -/
def tiedCount : Nat :=
  [tools_ascii_n.isSome, tools_ascii_an.isSome, tools_ascii_pa.isSome, tools_ascii_h.isSome,
   header_mac_len.isSome, header_block_size.isSome, keyblock_mac_len.isSome, keyblock_block_size.isSome,
   keyblock_algo_max_key_len.isSome, wrap_dispatch.isSome, unwrap_dispatch.isSome,
   cvv_translate.isSome, pvv_translate.isSome, ibm_maketrans_from.isSome].count true

end Psec.Tables

"""C04 — PIN block encode then decode returns the PIN (ISO 9564 formats 0, 2, 3, 4)."""
from core import Case
from props.cardutil import digits, rb, corpus

OBLIGATIONS = ["Psec.Props.C04.iso0_roundtrip", "Psec.Props.C04.iso2_roundtrip", "Psec.Props.C04.iso3_roundtrip", "Psec.Props.C04.iso4_field_roundtrip", "Psec.Props.C04.iso4_encipher_roundtrip"]
TRUSTED_BASE = ["Lean 4.33 kernel", "hypothesis Ciphers.Lawful for the format-4 encipherment", "CPython's SystemRandom.choice algorithm as modelled (rejection sampling of urandom(1)[0] >> 5)",
                "correspondence harness (os.urandom / random._urandom interposed before psec is imported) and compiled driver"]
RULE = ("PIN lengths 4..12 x PAN lengths 13..24 (formats 0/3) and 1..19 (format 4) x AES key sizes x several draws of the random fill, every encoder run with "
        "recorded entropy and reproduced byte for byte by the model; thorough: all 10^4 four-digit PINs; distinct = distinct driver lines")
HYPOTHESES = ["Ciphers.Lawful (format 4 enciphered)"]


KEYPOOL = {}


def roundtrips(c, rng, pin, pan, pan4, key):
    e0 = c.call("pinblock.encode_pinblock_iso_0", pin, pan)
    e2 = c.call("pinblock.encode_pinblock_iso_2", pin)
    e3 = c.call("pinblock.encode_pinblock_iso_3", pin, pan, with_entropy=True)
    f4 = c.call("pinblock.encode_pin_field_iso_4", pin, with_entropy=True)
    e4 = c.call("pinblock.encipher_pinblock_iso_4", key, pin, pan4, with_entropy=True)
    if not all(x.ok for x in (e0, e2, e3, f4, e4)):
        c.fail("encoder rejected an admissible PIN / PAN")
        return
    d0 = c.call("pinblock.decode_pinblock_iso_0", e0.value, pan)
    d2 = c.call("pinblock.decode_pinblock_iso_2", e2.value)
    d3 = c.call("pinblock.decode_pinblock_iso_3", e3.value, pan)
    d4f = c.call("pinblock.decode_pin_field_iso_4", f4.value)
    d4 = c.call("pinblock.decipher_pinblock_iso_4", key, e4.value, pan4)
    for name, d in (("0", d0), ("2", d2), ("3", d3), ("4 field", d4f), ("4 enciphered", d4)):
        if not d.ok or d.value != pin:
            c.fail(f"format {name}: decode(encode(pin)) = {d.value if d.ok else d.err} != {pin}")


def related_pairs(rng, tier):
    for d in "0123456789":
        for e in ("0", "9", d, str(9 - int(d))):
            for plen in (4, 12):
                yield d * plen, e * rng.choice((13, 16, 19)), "constant digits"
    for plen in range(4, 13):
        pan12 = digits(rng, 12)
        pan = digits(rng, rng.randrange(0, 7)) + pan12 + digits(rng, 1)
        yield pan12[:plen], pan, "PIN = leading PAN digits of the XORed window"
        yield pan12[-plen:], pan, "PIN = trailing PAN digits of the XORed window"
        yield pan12[2:2 + plen] if len(pan12[2:2 + plen]) == plen else pan12[:plen], pan, "PIN = the PAN digits it is XORed with"
        pin = digits(rng, plen)
        yield pin, (pin * 6)[:rng.choice((13, 16, 19))], "PAN = the PIN repeated"
    yield "123456789012", "1234567890123", "fixture pair"
    for t in (0xF, 0x0, 0x6, 0x9, 0xA, 0x5):
        for plen in range(4, 13):
            for _ in range(1 if tier == "quick" else 4):
                pin = list(digits(rng, plen))
                pan12 = []
                for j in range(4, 16):                     # nibble j of the block = field nibble j XOR PAN digit j - 4
                    if j - 2 < plen:                        # a PIN digit
                        ok = [d for d in range(10) if d ^ t <= 9]
                        d = rng.choice(ok) if ok else int(pin[j - 2])
                        pin[j - 2] = str(d)
                        pan12.append(str(d ^ t) if d ^ t <= 9 else digits(rng, 1))
                    else:                                   # fill (F in format 0)
                        pan12.append(str(0xF ^ t) if 0xF ^ t <= 9 else digits(rng, 1))
                yield "".join(pin), digits(rng, rng.randrange(0, 7)) + "".join(pan12) + digits(rng, 1), f"XORed part of the block is the nibble {t:X} repeated"


def generate(rng, tier, seed):
    # inputs found by search (harness/tools/build_aes_rare.py): AES keys whose check value is 000000, and values of the random half
    # of the format-4 PIN field for which the intermediate block of the decipherment looks like a PIN field itself
    for e in corpus("C04"):
        if e["kind"] == "zero-check-value":
            for _ in range(3):
                c = Case("roundtrip:key-with-zero-check-value", {"key": len(e["key"]) // 2})
                roundtrips(c, rng, digits(rng, rng.randrange(4, 13)), digits(rng, 16), digits(rng, rng.randrange(1, 20)), bytes.fromhex(e["key"]))
                yield c
        else:
            c = Case("roundtrip:format4:intermediate-looks-like-a-pin-field", {"pin": e["pin"]})
            key, fill = bytes.fromhex(e["key"]), bytes.fromhex(e["fill"])
            f4 = c.call("pinblock.encode_pin_field_iso_4", e["pin"], with_entropy=True, entropy=fill)
            e4 = c.call("pinblock.encipher_pinblock_iso_4", key, e["pin"], e["pan"], with_entropy=True, entropy=fill)
            if not (f4.ok and e4.ok):
                c.fail("encoder rejected an admissible PIN / PAN")
            else:
                if f4.value[8:] != fill:
                    c.fail("the PIN field does not carry the random bytes the operating system returned")
                d4 = c.call("pinblock.decipher_pinblock_iso_4", key, e4.value, e["pan"])
                if not d4.ok or d4.value != e["pin"]:
                    c.fail(f"format 4 enciphered: decode(encode(pin)) = {d4.value if d4.ok else d4.err} != {e['pin']} for the random fill {e['fill']}")
            yield c
    draws = 2 if tier == "quick" else 6
    for plen in range(4, 13):
        for panlen in range(13, 25):
            for _ in range(draws):
                c = Case("roundtrip", {"pin_len": plen, "pan_len": panlen})
                roundtrips(c, rng, digits(rng, plen), digits(rng, panlen), digits(rng, rng.randrange(1, 20)), rb(rng, rng.choice((16, 24, 32))))
                yield c
        for pan4len in range(1, 20):
            for ks in (16, 24, 32):
                c = Case("roundtrip:format4", {"pin_len": plen, "pan_len": pan4len, "key": ks})
                pool = KEYPOOL.setdefault(ks, [rb(rng, ks) for _ in range(2)])
                roundtrips(c, rng, digits(rng, plen), digits(rng, 16), digits(rng, pan4len), rng.choice(pool))
                yield c
    # very long PANs (formats 0 and 3 document a lower bound only): hundreds of digits, and either side of the interpreter's
    # limit of 4300 digits for converting text to an integer
    for panlen in (40, 100, 640, 641, 1000, 4299, 4300, 4301, 4302, 5000, 20000):
        for plen in (4, 7, 12):
            c = Case("roundtrip:long-pan", {"pin_len": plen, "pan_len": panlen})
            roundtrips(c, rng, digits(rng, plen), digits(rng, panlen), digits(rng, 16), rb(rng, 16))
            yield c
    # PIN and PAN related to each other (the round trip holds for *every* admissible pair): constant digits against constant
    # digits, the PIN equal to the twelve PAN digits it is XORed with or to a part of them, the PAN made of the PIN repeated,
    # and pairs chosen so that the XORed part of the block is one nibble repeated (block 0412FFFFFFFFFFFF and the like)
    for pin, pan, note in related_pairs(rng, tier):
        c = Case("roundtrip:related-pin-pan", {"note": note})
        roundtrips(c, rng, pin, pan, pan[-12:] if rng.random() < 0.5 else pin, rb(rng, rng.choice((16, 24, 32))))
        yield c
    n = 10000 if tier == "thorough" else 400
    pan, pan4, key = digits(rng, 16), digits(rng, 12), rb(rng, 16)
    for v in (range(10000) if tier == "thorough" else rng.sample(range(10000), n)):
        c = Case("four-digit-pins", {})
        roundtrips(c, rng, f"{v:04d}", pan, pan4, key)
        yield c

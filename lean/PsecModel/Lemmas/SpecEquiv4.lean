import PsecModel.Lemmas.SpecEquiv3
/-!
# Bridges between psec's guards and the specification's, and the equivalence theorem
-/
namespace Psec.Tr31
open Psec Psec.Spec Psec.Spec.TR31 Psec.Props.C17

theorem take_drop_comm {α : Type} (l : List α) (a b : Nat) (h : a ≤ b) : (l.take b).drop a = (l.drop a).take (b - a) := by
  rw [List.drop_take]

theorem take1_headD (s : PyStr) (h : 1 ≤ s.length) : s.take 1 = [s.headD 0] := by
  cases s with
  | nil => simp at h
  | cons a r => rfl

theorem versionOk_iff (v : Nat) : versionOk [v] = true ↔ (v = 65 ∨ v = 66 ∨ v = 67 ∨ v = 68) := by
  unfold versionOk
  simp only [Bool.or_eq_true, beq_iff_eq, List.cons.injEq, and_true]
  constructor
  · rintro (((h | h) | h) | h) <;> simp [h]
  · rintro (h | h | h | h) <;> simp [h]

theorem algo_of (v : Nat) (h : v = 65 ∨ v = 66 ∨ v = 67 ∨ v = 68) :
    algoBs [v] = some (bsOf v) ∧ macLen [v] = some (macLenOf v) ∧ (bsOf v = 8 ∨ bsOf v = 16) ∧ (2 * macLenOf v) % bsOf v = 0 ∧
    0 < macLenOf v := by
  rcases h with rfl | rfl | rfl | rfl <;> decide

theorem dec?_iff (x : PyStr) (hx : x ≠ []) (n : Nat) : dec? x = some n ↔ asciiNumeric x = true ∧ decVal x = n := by
  unfold dec? asciiNumeric
  by_cases h : x.all isDigitC = true
  · rw [if_pos ⟨h, hx⟩]
    exact ⟨fun hh => ⟨h, by injection hh⟩, fun hh => by rw [hh.2]⟩
  · rw [if_neg (fun hh => h hh.1)]
    exact ⟨fun hh => (by cases hh), fun hh => absurd hh.1 h⟩

/-- hex decoding with and without whitespace tolerance coincide on strings without whitespace -/
theorem fromHexWs_nows : ∀ (x : PyStr), (∀ ch ∈ x, isSpaceC ch = false) → fromHexWs x = a2bHex x
  | [], _ => rfl
  | [ch], h => by
    simp only [fromHexWs, a2bHex]
    simp [h ch (by simp)]
  | ch :: d :: r, h => by
    simp only [fromHexWs, a2bHex]
    rw [if_neg (by rw [h ch (by simp)]; simp), fromHexWs_nows r (fun x hx => h x (by simp [hx]))]

theorem a2bHex_len : ∀ (x : PyStr) (d : Bytes), a2bHex x = some d → x.length = 2 * d.length
  | [], d, h => by simp only [a2bHex, Option.some.injEq] at h; subst h; rfl
  | [_], d, h => by simp [a2bHex] at h
  | ch :: e :: r, d, h => by
    simp only [a2bHex] at h
    cases h1 : hexVal ch with
    | none => rw [h1] at h; cases h
    | some hi =>
      cases h2 : hexVal e with
      | none => rw [h1, h2] at h; cases h
      | some lo =>
        rw [h1, h2] at h; simp only [] at h
        cases h3 : a2bHex r with
        | none => rw [h3] at h; cases h
        | some d' =>
          rw [h3] at h; simp only [Option.map_some, Option.some.injEq] at h
          subst h
          have := a2bHex_len r d' h3
          simp [this]; omega

/-- key extraction: psec's slice test and the specification's bound test are the same once there are two length bytes -/
theorem extractKey_iff (clear key : Bytes) (h2 : 2 ≤ clear.length) :
    extractKey clear = .ok key ↔
      fromBytesBE (clear.take 2) % 8 = 0 ∧ fromBytesBE (clear.take 2) / 8 + 2 ≤ clear.length ∧
      key = (clear.drop 2).take (fromBytesBE (clear.take 2) / 8) := by
  unfold extractKey
  simp only []
  generalize fromBytesBE (clear.take 2) = kl
  by_cases g1 : kl % 8 = 0
  · rw [if_neg (not_not_intro g1)]
    have hlen : ((clear.take (kl / 8 + 2)).drop 2).length = min (kl / 8 + 2) clear.length - 2 := by
      rw [List.length_drop, List.length_take]
    have heq : (clear.take (kl / 8 + 2)).drop 2 = (clear.drop 2).take (kl / 8) := by
      rw [List.drop_take]; simp
    by_cases g2 : kl / 8 + 2 ≤ clear.length
    · rw [if_neg (by rw [hlen, Nat.min_eq_left g2]; omega), heq]
      exact ⟨fun hh => ⟨g1, g2, by injection hh with hh; exact hh.symm⟩, fun hh => by rw [hh.2.2]⟩
    · rw [if_pos (by rw [hlen, Nat.min_eq_right (by omega)]; omega)]
      exact ⟨fun hh => (by cases hh), fun hh => absurd hh.2.1 g2⟩
  · rw [if_pos g1]
    exact ⟨fun hh => (by cases hh), fun hh => absurd hh.1 g1⟩


/-! ## the version's unwrapper as a whole, against the specification's verification step -/

/-- a released key implies an admissible KBPK size and a positive whole number of cipher blocks of key data -/
theorem dispatch_ok_len (c : Ciphers) (v : Nat) (hv : v = 65 ∨ v = 66 ∨ v = 67 ∨ v = 68) (kbpk : Bytes) (hdr : PyStr)
    (enc t key : Bytes) (h : unwrapDispatch c [v] kbpk hdr enc t = .ok key) :
    kbpkOk v kbpk = true ∧ bsOf v ≤ enc.length ∧ enc.length % bsOf v = 0 := by
  unfold unwrapDispatch at h
  by_cases e66 : v = 66
  · subst e66
    rw [if_pos (by decide : (([66] : PyStr) == [66]) = true)] at h
    unfold bUnwrap at h
    by_cases hk : kbpk.length = 16 ∨ kbpk.length = 24
    · rw [if_neg (not_not_intro hk)] at h
      by_cases hl : enc.length < 8 ∨ enc.length % 8 ≠ 0
      · rw [if_pos hl] at h; cases h
      · refine ⟨by unfold kbpkOk; rcases hk with e | e <;> simp [e], ?_, ?_⟩
        · show 8 ≤ enc.length; omega
        · show enc.length % 8 = 0; omega
    · rw [if_pos hk] at h; cases h
  · by_cases e68 : v = 68
    · subst e68
      rw [if_neg (by decide : ¬ (([68] : PyStr) == [66]) = true), if_pos (by decide : (([68] : PyStr) == [68]) = true)] at h
      unfold dUnwrap at h
      by_cases hk : kbpk.length = 16 ∨ kbpk.length = 24 ∨ kbpk.length = 32
      · rw [if_neg (not_not_intro hk)] at h
        by_cases hl : enc.length < 16 ∨ enc.length % 16 ≠ 0
        · rw [if_pos hl] at h; cases h
        · refine ⟨by unfold kbpkOk; rcases hk with e | e | e <;> simp [e], ?_, ?_⟩
          · show 16 ≤ enc.length; omega
          · show enc.length % 16 = 0; omega
      · rw [if_pos hk] at h; cases h
    · have b66 : (([v] : PyStr) == [66]) = false := by simpa using e66
      have b68 : (([v] : PyStr) == [68]) = false := by simpa using e68
      rw [b66, b68] at h
      simp only [Bool.false_eq_true, if_false] at h
      unfold cUnwrap at h
      have hbs : bsOf v = 8 := by unfold bsOf; rw [if_neg e68]
      by_cases hk : kbpk.length = 8 ∨ kbpk.length = 16 ∨ kbpk.length = 24
      · rw [if_neg (not_not_intro hk)] at h
        by_cases hl : enc.length < 8 ∨ enc.length % 8 ≠ 0
        · rw [if_pos hl] at h; cases h
        · refine ⟨by unfold kbpkOk; rw [if_neg e66, if_neg e68]; rcases hk with e | e | e <;> simp [e], ?_, ?_⟩
          · rw [hbs]; omega
          · rw [hbs]; omega
      · rw [if_pos hk] at h; cases h

/-- the recovered clear data is as long as the encrypted data -/
theorem specClear_length (c : Ciphers) (hc : c.Lawful) (v : Nat) (hv : v = 65 ∨ v = 66 ∨ v = 67 ∨ v = 68) (kbpk : Bytes)
    (hk : kbpkOk v kbpk = true) (hdr : PyStr) (enc t : Bytes) (hem : enc.length % bsOf v = 0) :
    (specClear c v kbpk hdr enc t).length = enc.length := by
  unfold specClear
  by_cases e68 : v = 68
  · subst e68
    rw [if_pos rfl]
    have hkk : kbpk.length = 16 ∨ kbpk.length = 24 ∨ kbpk.length = 32 := by unfold kbpkOk at hk; simpa [or_assoc] using hk
    obtain ⟨kbek, kbak, hd2, hl1, _⟩ := dDerive_ok c hc kbpk hkk
    have hd := dDerive_eq_kdf c hc kbpk hkk
    rw [hd2] at hd; injection hd with hd
    rw [← hd]
    have hkek : aesKeyOk kbek = true := by rcases hkk with e | e | e <;> simp [aesKeyOk, hl1, e]
    have hdiv : enc.length = enc.length / 16 * 16 := Props.C19.len_eq_div_mul _ _ hem
    show (cbcDec (c.aesD kbek) t (splitBlocks 16 enc.length enc)).flatten.length = _
    rw [specCbcDec_eq (c.aesD kbek) 16 (by decide) _ enc.length t enc hdiv (Nat.div_le_self _ _)]
    exact cbcDec_length _ 16 _ t enc (hc.aes_de kbek hkek).enc_len hdiv
  · rw [if_neg e68]
    have hbs : bsOf v = 8 := by unfold bsOf; rw [if_neg e68]
    rw [hbs] at hem ⊢
    have hdiv : enc.length = enc.length / 8 * 8 := Props.C19.len_eq_div_mul _ _ hem
    by_cases e66 : v = 66
    · subst e66
      rw [if_pos rfl]
      have hkk : kbpk.length = 16 ∨ kbpk.length = 24 := by unfold kbpkOk at hk; simpa using hk
      obtain ⟨kbek, kbak, hd2, hl1, _⟩ := bDerive_ok c hc kbpk hkk
      have hd := bDerive_eq_kdf c hc kbpk hkk
      rw [hd2] at hd; injection hd with hd
      rw [← hd]
      have hkek : tdesKeyOk kbek = true := by rcases hkk with e | e <;> simp [tdesKeyOk, hl1, e]
      rw [specCbcDec_eq (c.tdesD kbek) 8 (by decide) _ enc.length t enc hdiv (Nat.div_le_self _ _)]
      exact cbcDec_length _ 8 _ t enc (hc.tdes_de kbek hkek).enc_len hdiv
    · rw [if_neg e66]
      have hkk : kbpk.length = 8 ∨ kbpk.length = 16 ∨ kbpk.length = 24 := by
        unfold kbpkOk at hk; simpa [e66, e68, or_assoc] using hk
      rw [← cDerive_eq_variant c kbpk v e66 e68]
      have hkek : tdesKeyOk (cDerive kbpk).1 = true := by
        rcases hkk with e | e | e <;> simp [tdesKeyOk, (cDerive_len kbpk).1, e]
      rw [specCbcDec_eq (c.tdesD (cDerive kbpk).1) 8 (by decide) _ enc.length _ enc hdiv (Nat.div_le_self _ _)]
      exact cbcDec_length _ 8 _ _ enc (hc.tdes_de _ hkek).enc_len hdiv

/-- **the version's unwrapper releases `key` exactly when the specification's verification step does** -/
theorem dispatch_iff (c : Ciphers) (hc : c.Lawful) (v : Nat) (hv : v = 65 ∨ v = 66 ∨ v = 67 ∨ v = 68) (kbpk : Bytes)
    (hk : kbpkOk v kbpk = true) (hdr : PyStr) (hpr : asciiPrintable hdr = true) (hhm : hdr.length % bsOf v = 0)
    (hh16 : 16 ≤ hdr.length) (enc t key : Bytes) (hel : bsOf v ≤ enc.length) (hem : enc.length % bsOf v = 0)
    (htl : t.length = macLenOf v) :
    unwrapDispatch c [v] kbpk hdr enc t = .ok key ↔
      tag c v (deriveKeys c v kbpk).snd hdr (specClear c v kbpk hdr enc t) enc = t ∧
      fromBytesBE ((specClear c v kbpk hdr enc t).take 2) % 8 = 0 ∧
      fromBytesBE ((specClear c v kbpk hdr enc t).take 2) / 8 + 2 ≤ (specClear c v kbpk hdr enc t).length ∧
      key = ((specClear c v kbpk hdr enc t).drop 2).take (fromBytesBE ((specClear c v kbpk hdr enc t).take 2) / 8) := by
  have hcl := specClear_length c hc v hv kbpk hk hdr enc t hem
  have hbs8 : 8 ≤ bsOf v := by unfold bsOf; split <;> decide
  have h2 : 2 ≤ (specClear c v kbpk hdr enc t).length := by rw [hcl]; omega
  have hex := extractKey_iff (specClear c v kbpk hdr enc t) key h2
  have hdisp : unwrapDispatch c [v] kbpk hdr enc t =
      (if tag c v (deriveKeys c v kbpk).snd hdr (specClear c v kbpk hdr enc t) enc ≠ t
       then .error .keyblock else extractKey (specClear c v kbpk hdr enc t)) := by
    unfold unwrapDispatch specClear
    by_cases e66 : v = 66
    · subst e66
      have hkk : kbpk.length = 16 ∨ kbpk.length = 24 := by unfold kbpkOk at hk; simpa using hk
      rw [if_pos (by decide : (([66] : PyStr) == [66]) = true), if_neg (by decide : ¬ (66 = 68)), if_pos rfl]
      exact dispatch_B_eq c hc kbpk hkk hdr hpr hhm enc t hel hem htl
    · by_cases e68 : v = 68
      · subst e68
        have hkk : kbpk.length = 16 ∨ kbpk.length = 24 ∨ kbpk.length = 32 := by unfold kbpkOk at hk; simpa [or_assoc] using hk
        rw [if_neg (by decide : ¬ (([68] : PyStr) == [66]) = true), if_pos (by decide : (([68] : PyStr) == [68]) = true), if_pos rfl]
        exact dispatch_D_eq c hc kbpk hkk hdr hpr hhm enc t hel hem htl
      · have b66 : (([v] : PyStr) == [66]) = false := by simpa using e66
        have b68 : (([v] : PyStr) == [68]) = false := by simpa using e68
        have hbs : bsOf v = 8 := by unfold bsOf; rw [if_neg e68]
        have hkk : kbpk.length = 8 ∨ kbpk.length = 16 ∨ kbpk.length = 24 := by
          unfold kbpkOk at hk; simpa [e66, e68, or_assoc] using hk
        rw [b66, b68, if_neg e68, if_neg e66, hbs]
        simp only [Bool.false_eq_true, if_false]
        rw [hbs] at hel hem
        exact dispatch_AC_eq c hc v e66 e68 kbpk hkk hdr hpr (by omega) enc t hel hem
  rw [hdisp]
  by_cases hm : tag c v (deriveKeys c v kbpk).snd hdr (specClear c v kbpk hdr enc t) enc ≠ t
  · rw [if_pos hm]
    exact ⟨fun hh => (by cases hh), fun hh => absurd hh.1 hm⟩
  · rw [if_neg hm]
    have hm' := Decidable.not_not.mp hm
    exact ⟨fun hh => ⟨hm', hex.mp hh⟩, fun hh => hex.mpr hh.2⟩

end Psec.Tr31

"""C18 — deterministic operations are pure under repetition, interleaving and threads."""
import os
import random as pyrandom
import sys
import threading

import effects
import sched
import core
from core import Case, call_impl, enc, enc_b, enc_s, psec, REPO, LEAN_DIR, snapshot
from props.tr31util import VERS, rb, rs, rand_blocks, make_header, tr31, UNWRAP_TOK, clone_header
from props.cardutil import digits

OBLIGATIONS = ["Psec.Conc.schedule_independent", "Psec.Props.C18.effects_ok", "Psec.Props.C18.every_step_readOnly", "Psec.Props.C18.schedule_independent_instance"]
BUILD_BREAK_IS_OBLIGATION = True
BUILD_TARGETS = ["psecdrv", "PsecModel.Props.C18"]
AUDIT_IMPORT = "PsecModel.Props.C18"
TRUSTED_BASE = ["Lean 4.33 kernel", "harness/effects.py: a syntactic effect analysis of the Python source (sound only for the constructs it recognises; call results assumed fresh; fails closed on dynamic features it knows)",
                "ASSUMED: CPython and OpenSSL are internally thread-safe", "sys.settrace line-granularity scheduler and the threaded workload are tests of the implementation, not proofs"]
RULE = ("(i) a mixed workload of (function, arguments) items over every deterministic public operation, each compared with the model and with argument snapshots before/after; "
        "(ii) every single-preemption schedule at source-line granularity for a set of operation pairs (A paused at line k, B runs to completion, A resumes); "
        "(iii) the workload executed in shuffled order by up to 16 free-running threads with sys.setswitchinterval(1e-6), compared with the single-threaded results; "
        "distinct = distinct driver lines / schedules")
ASSUMPTIONS = ["CPython / OpenSSL internal thread-safety"]
A = psec.mac.Algorithm
PSEC_DIR = os.path.join(os.path.abspath(REPO), "psec") + os.sep
_extra = {}


from props.cardutil import corpus as _corpus
RARE_CVV = _corpus("C09") + _corpus("C09", "rare2.jsonl")
RARE_PVV = _corpus("C10") + _corpus("C10", "patterns.jsonl")


def prepare():
    an = effects.run(REPO, os.path.join(LEAN_DIR, "PsecModel", "Generated", "Effects.lean"))
    _extra["effect_summary"] = {"functions": len(an.fns),
                                "self_writers": sorted(q for q, f in an.fns.items() if f.selfw),
                                "shared_writes": {q: f.shared for q, f in an.fns.items() if f.shared},
                                "argument_writes": {q: f.arg for q, f in an.fns.items() if f.arg},
                                "unknown": {q: f.unknown for q, f in an.fns.items() if f.unknown},
                                "module_level_writes": an.module_writes}


def extra_evidence():
    return dict(_extra)


def workload(rng, n):
    """list of (fn name, args, stream, tok)"""
    items = []
    gens = {}
    for ver, (bs, ksizes, ml) in VERS.items():
        for j in range(2):
            kbpk = rb(rng, ksizes[-1 - j])
            h = make_header(rng, ver, rand_blocks(rng, 2))
            gens[(ver, j)] = (kbpk, tr31.wrap(kbpk, h, rb(rng, 16)))
            items.append(("tr31.unwrap", gens[(ver, j)], "tr31", UNWRAP_TOK))
    # rejected calls whose byte arguments are the caller's mutable buffers (a rejected call must leave them as they were, and usable)
    for _ in range(3):
        items.append(("des.encrypt_tdes_ecb", (bytearray(rb(rng, 16)), bytearray(rb(rng, rng.choice((7, 12, 17))))), "plain", None))
        items.append(("aes.decrypt_aes_cbc", (bytearray(rb(rng, 16)), rb(rng, 16), bytearray(rb(rng, rng.choice((15, 20, 33))))), "plain", None))
        items.append(("aes.encrypt_aes_ecb", (bytearray(rb(rng, rng.choice((8, 15, 20)))), bytearray(rb(rng, 32))), "plain", None))
        items.append(("mac.generate_cbc_mac", (rb(rng, rng.choice((5, 12, 20))), bytearray(rb(rng, rng.randrange(9, 40))), rng.choice((1, 2, 3)), None, A.DES), "plain", None))
        items.append(("mac.generate_cbc_mac", (rb(rng, 16), bytearray(rb(rng, rng.randrange(9, 40))), 4, None, A.AES), "plain", None))
        items.append(("mac.generate_retail_mac", (rb(rng, 7), rb(rng, 8), bytearray(rb(rng, rng.randrange(9, 30))), 1, None), "plain", None))
        items.append(("pinblock.decipher_pinblock_iso_4", (rb(rng, 16), bytearray(rb(rng, rng.choice((15, 17, 32)))), "1234567890123"), "plain", None))
    # every documented rejection of the card functions and PIN-block functions, twice each with different values (a rejection must
    # not leave anything behind either: no shared exception object, no state)
    for _ in range(2):
        dk_, cv, pan16 = rb(rng, 16), digits(rng, 16), digits(rng, 16)
        items += [("pin.generate_ibm3624_pin", (rb(rng, 9), cv, digits(rng, 4), pan16, 0, 12, "F"), "plain", None),
                  ("pin.generate_ibm3624_pin", (dk_, digits(rng, 15), digits(rng, 4), pan16, 0, 12, "F"), "plain", None),
                  ("pin.generate_ibm3624_pin", (dk_, cv, digits(rng, 4), digits(rng, 20), 0, 12, "F"), "plain", None),
                  ("pin.generate_ibm3624_pin", (dk_, cv, digits(rng, 4), pan16, 0, 12, "G"), "plain", None),
                  ("pin.generate_ibm3624_pin", (dk_, cv, digits(rng, 4), pan16, 10, 12, "F"), "plain", None),
                  ("pin.generate_ibm3624_pin", (dk_, cv, digits(rng, 3), pan16, 0, 12, "F"), "plain", None),
                  ("pin.generate_ibm3624_offset", (rb(rng, 7), cv, digits(rng, 4), pan16, 0, 12, "F"), "plain", None),
                  ("pin.generate_ibm3624_offset", (dk_, cv + "1", digits(rng, 4), pan16, 0, 12, "F"), "plain", None),
                  ("pin.generate_ibm3624_offset", (dk_, cv, digits(rng, 4), digits(rng, 25), 0, 12, "F"), "plain", None),
                  ("pin.generate_ibm3624_offset", (dk_, cv, digits(rng, 4), pan16, 0, 12, "x"), "plain", None),
                  ("pin.generate_ibm3624_offset", (dk_, cv, digits(rng, 4), pan16, 12, 8, "F"), "plain", None),
                  ("pin.generate_ibm3624_offset", (dk_, cv, digits(rng, 17), pan16, 0, 12, "F"), "plain", None),
                  ("pin.generate_visa_pvv", (rb(rng, 12), "1", digits(rng, 4), pan16), "plain", None),
                  ("pin.generate_visa_pvv", (dk_, "12", digits(rng, 4), pan16), "plain", None),
                  ("pin.generate_visa_pvv", (dk_, "1", digits(rng, 5), pan16), "plain", None),
                  ("pin.generate_visa_pvv", (dk_, "1", digits(rng, 4), digits(rng, 11)), "plain", None),
                  ("cvv.generate_cvv", (rb(rng, 8), pan16, digits(rng, 4), digits(rng, 3)), "plain", None),
                  ("cvv.generate_cvv", (dk_, digits(rng, 20), digits(rng, 4), digits(rng, 3)), "plain", None),
                  ("cvv.generate_cvv", (dk_, pan16, digits(rng, 3), digits(rng, 3)), "plain", None),
                  ("cvv.generate_cvv", (dk_, pan16, digits(rng, 4), digits(rng, 2)), "plain", None),
                  ("pinblock.encode_pinblock_iso_0", (digits(rng, 3), pan16), "plain", None),
                  ("pinblock.encode_pinblock_iso_0", (digits(rng, 4), digits(rng, 12)), "plain", None),
                  ("pinblock.encode_pinblock_iso_2", (digits(rng, 13),), "plain", None),
                  ("pinblock.decode_pinblock_iso_0", (rb(rng, 7), pan16), "plain", None),
                  ("pinblock.decode_pinblock_iso_2", (b"\x34" + rb(rng, 7),), "plain", None),
                  ("pinblock.encode_pan_field_iso_4", (digits(rng, 20),), "plain", None),
                  ("des.apply_key_variant", (rb(rng, 16), 32 + rng.randrange(100)), "plain", None),
                  ("des.generate_kcv", (rb(rng, 9), 3), "plain", None),
                  ("mac.pad_iso_3", (rb(rng, 40), 1), "plain", None)]
    for _ in range(n):
        k = rng.randrange(22)
        dk = rb(rng, rng.choice((8, 16, 24)))
        ak = rb(rng, rng.choice((16, 24, 32)))
        if k == 0:
            items.append(("des.encrypt_tdes_cbc", (bytearray(dk), rb(rng, 8), rb(rng, 24)), "plain", None))
        elif k == 1:
            items.append(("des.decrypt_tdes_ecb", (dk, bytearray(rb(rng, 16))), "plain", None))
        elif k == 2:
            items.append(("aes.encrypt_aes_cbc", (ak, rb(rng, 16), rb(rng, 48)), "plain", None))
        elif k == 3:
            items.append(("aes.decrypt_aes_ecb", (bytearray(ak), rb(rng, 32)), "plain", None))
        elif k == 4:
            items.append(("mac.generate_cbc_mac", (dk, rb(rng, rng.randrange(0, 40)), rng.choice((1, 2, 3)), None, A.DES), "plain", None))
        elif k == 5:
            items.append(("mac.generate_cbc_mac", (ak, rb(rng, rng.randrange(0, 40)), rng.choice((1, 2, 3)), 8, A.AES), "plain", None))
        elif k == 6:
            items.append(("mac.generate_retail_mac", (dk, rb(rng, 16), bytearray(rb(rng, rng.randrange(0, 30))), 2, None), "plain", None))
        elif k == 7:
            items.append((f"mac.pad_iso_{rng.choice((1, 2, 3))}", (bytearray(rb(rng, rng.randrange(0, 20))), rng.choice((None, 8, 16))), "plain", None))
        elif k == 8:
            # half of the CVV / PVV items take the rare second decimalisation pass (inputs from the corpus): repetition and
            # interleaving must not matter there either
            e = rng.choice(RARE_CVV) if RARE_CVV and rng.random() < 0.5 else None
            items.append(("cvv.generate_cvv", (bytes.fromhex(e["cvk"]), e["pan"], e["expiry"], e["svc"]) if e else
                          (rb(rng, 16), digits(rng, 16), digits(rng, 4), digits(rng, 3)), "plain", None))
        elif k == 9:
            e = rng.choice(RARE_PVV) if RARE_PVV and rng.random() < 0.5 else None
            items.append(("pin.generate_visa_pvv", (bytes.fromhex(e["pvk"]), e["pvki"], e["pin"], e["pan"]) if e else
                          (dk, digits(rng, 1), digits(rng, 4), digits(rng, 16)), "plain", None))
        elif k == 10:
            items.append(("pin.generate_ibm3624_pin", (dk, digits(rng, 16), digits(rng, 6), digits(rng, 16), 2, 12, "F"), "plain", None))
        elif k == 11:
            items.append(("pin.generate_ibm3624_offset", (dk, digits(rng, 16), digits(rng, 4), digits(rng, 19), 0, 19, "d"), "plain", None))
        elif k == 12:
            pin, pan = digits(rng, rng.randrange(4, 13)), digits(rng, 16)
            items.append(("pinblock.encode_pinblock_iso_0", (pin, pan), "plain", None))
            items.append(("pinblock.decode_pinblock_iso_0", (bytearray(psec.pinblock.encode_pinblock_iso_0(pin, pan)), pan), "plain", None))
        elif k == 13:
            pin = digits(rng, rng.randrange(4, 13))
            items.append(("pinblock.decode_pinblock_iso_2", (psec.pinblock.encode_pinblock_iso_2(pin),), "plain", None))
        elif k == 14:
            pin, pan = digits(rng, rng.randrange(4, 13)), digits(rng, 12)
            blk = psec.pinblock.encipher_pinblock_iso_4(ak, pin, pan)
            items.append(("pinblock.decipher_pinblock_iso_4", (ak, blk, pan), "plain", None))
        elif k == 15:
            ver = (rng.choice("ABCD"), rng.randrange(2))
            items.append(("tr31.unwrap", gens[ver], "tr31", UNWRAP_TOK))
        elif k == 16:
            ver = (rng.choice("ABCD"), rng.randrange(2))
            kb = gens[ver][1]
            items.append(("tr31.unwrap", (gens[ver][0], kb[:-1] + ("0" if kb[-1] != "0" else "1")), "tr31", UNWRAP_TOK))
        elif k == 17 and rng.random() < 0.5:
            # deterministic serialisers of a Header object the caller keeps (the object is an argument: it must stay as it is)
            hv = rng.choice("ABCD")
            hobj = make_header(rng, hv, rand_blocks(rng, rng.randrange(0, 3)))
            if rng.random() < 0.5:
                items.append(("tr31.Header.__str__", (hobj,), "tr31", None))
            else:
                items.append(("tr31.Header.dump", (hobj, rng.choice([0, 16, 24, 40])), "tr31", None))
        elif k == 17:
            items.append(("des.adjust_key_parity", (bytearray(dk),), "plain", None))
        elif k == 18:
            items.append(("des.apply_key_variant", (bytearray(dk), rng.randrange(32)), "plain", None))
        elif k == 19:
            items.append(("des.generate_kcv", (dk, 3), "plain", None))
        elif k == 20:
            items.append(("tools.xor", (bytearray(rb(rng, 9)), bytearray(rb(rng, rng.randrange(0, 12)))), "plain", None))
        else:
            items.append(("pinblock.encode_pan_field_iso_4", (digits(rng, rng.randrange(1, 20)),), "plain", None))
    return items


def outcome_of(item):
    fn, args, stream, tok = item
    r = call_impl(fn, args, stream=stream)
    return ("ok", repr(r.value) if tok is None else tok(r.value)) if r.ok else ("err", r.err, str(r.exc))


def plain_outcome(item):
    fn, args, _, tok = item
    from core import resolve
    try:
        v = resolve(fn)(*args)
        return ("ok", repr(v) if tok is None else tok(v))
    except Exception as e:  # noqa: BLE001
        return ("err", type(e).__name__, str(e))


def generate(rng, tier, seed):
    n = 400 if tier == "quick" else 4000
    items = workload(rng, n)
    expected = []
    # (i) sequential: model comparison, argument snapshots, repetition
    for it in items:
        fn, args, stream, tok = it
        c = Case("workload:" + fn.split(".")[-1], {})
        op = {"tr31.unwrap": "tr31.unwrap", "tr31.Header.__str__": "header.str", "tr31.Header.dump": "header.dump"}.get(fn)
        r = c.call(fn, *args, op=op, stream=stream, tok=tok)
        r2 = call_impl(fn, args, stream=stream)
        o1 = ("ok", enc(r.value) if tok is None else tok(r.value)) if r.ok else ("err", r.err)
        o2 = ("ok", enc(r2.value) if tok is None else tok(r2.value)) if r2.ok else ("err", r2.err)
        if o1 != o2:
            c.fail("the same call returned a different result when repeated")
        locked = core.buffers_locked(args)      # while `r` and `r2` (results, exceptions with their tracebacks) are still held
        if locked:
            c.fail(f"a bytearray argument is left locked against resizing after the call {'returned' if r.ok else 'raised ' + r.err} ({locked})")
        expected.append(plain_outcome(it))
        yield c
    # (i') wrap is randomised, but it takes a Header object the caller keeps: the object must be exactly as before afterwards - fields,
    # blocks and what it serialises to (Case.call compares a snapshot that includes `str(header)`)
    for ver in "ABCD":
        for _ in range(2):
            hobj = make_header(rng, ver, rand_blocks(rng, rng.randrange(0, 3)))
            c = Case("wrap-keeps-header-argument", {"ver": ver})
            before = (enc(hobj), str(hobj))
            c.call("tr31.wrap", rb(rng, VERS[ver][1][-1]), hobj, rb(rng, rng.choice([8, 16, 24])), rng.choice([None, 0, 40]), op="tr31.wrap", stream="tr31", with_entropy=True)
            kbo = tr31.KeyBlock(rb(rng, VERS[ver][1][-1]), hobj)
            kbo.wrap(rb(rng, 16))
            hobj.dump(24)
            if (enc(hobj), str(hobj)) != before:
                c.fail("wrap / dump left the caller's Header object serialising differently than before")
            yield c
    # (ii) single-preemption schedules
    pairs = []
    kb_items = [it for it in items if it[0] == "tr31.unwrap"]
    by_fn = {}
    for it in items:
        by_fn.setdefault(it[0], []).append(it)
    def pick(fn, j=0):
        lst = by_fn.get(fn, [])
        return lst[j % len(lst)] if lst else None
    cand = [(pick("tr31.unwrap", 0), pick("tr31.unwrap", 1)), (pick("tr31.unwrap", 2), pick("tr31.unwrap", 3)),
            (pick("tr31.unwrap", 4), pick("tr31.unwrap", 5)), (pick("tr31.unwrap", 6), pick("tr31.unwrap", 7)), (pick("tr31.unwrap", 1), pick("tr31.unwrap", 6)),
            (pick("mac.generate_cbc_mac", 0), pick("mac.generate_cbc_mac", 1)), (pick("mac.generate_retail_mac"), pick("mac.generate_cbc_mac", 2)),
            (pick("cvv.generate_cvv", 0), pick("cvv.generate_cvv", 1)), (pick("pin.generate_visa_pvv"), pick("pin.generate_ibm3624_pin")),
            (pick("pinblock.decipher_pinblock_iso_4"), pick("pinblock.decode_pinblock_iso_0")), (pick("des.adjust_key_parity"), pick("des.apply_key_variant")),
            (pick("tr31.unwrap", 3), pick("mac.generate_cbc_mac", 3)), (pick("des.encrypt_tdes_cbc"), pick("aes.encrypt_aes_cbc"))]
    if tier == "thorough":
        for _ in range(30):
            cand.append((rng.choice(items), rng.choice(items)))
    # a wrap sharing one Header object with a concurrent wrap / str (the caller's header must stay intact and results must not mix)
    for a, b in cand:
        if a is None or b is None:
            continue
        ea, eb = plain_outcome(a), plain_outcome(b)
        snap_a, snap_b = [snapshot(x) for x in a[1]], [snapshot(x) for x in b[1]]
        total = sched.count_lines(lambda: plain_outcome(a), PSEC_DIR)
        c = Case("schedules:" + a[0].split(".")[-1] + "||" + b[0].split(".")[-1], {"lines_in_A": total})
        c.key = ("sched", a[0], b[0], repr(a[1])[:80], repr(b[1])[:80])
        bad = 0
        ks = range(1, total + 1) if (tier == "thorough" or total <= 400) else sorted(rng.sample(range(1, total + 1), 400))
        for k in ks:
            ra, rb_ = sched.run_preempted(lambda: plain_outcome(a), lambda: plain_outcome(b), k, PSEC_DIR)
            got_a, got_b = ra[1] if ra[0] == "ok" else ra, rb_[1] if rb_[0] == "ok" else rb_
            if got_a != ea or got_b != eb:
                bad += 1
                if bad <= 2:
                    c.fail(f"schedule (A={a[0]} preempted at traced line {k} by B={b[0]}): A -> {str(got_a)[:80]} (alone: {str(ea)[:80]}), B -> {str(got_b)[:80]} (alone: {str(eb)[:80]})")
            if [snapshot(x) for x in a[1]] != snap_a or [snapshot(x) for x in b[1]] != snap_b:
                c.fail(f"arguments modified under schedule k={k}")
                break
        c.desc["schedules"] = len(ks)
        _extra["schedules_run"] = _extra.get("schedules_run", 0) + len(ks)
        yield c
    # (iii) free-running threads
    c = Case("threads:free-running", {"items": len(items)})
    old = sys.getswitchinterval()
    nthreads = 8 if tier == "quick" else 16
    rounds = 2 if tier == "quick" else 6
    results = {}
    try:
        sys.setswitchinterval(1e-6)
        for rd in range(rounds):
            order = list(range(len(items)))
            def worker(tid, order=order):
                loc = list(order)
                pyrandom.Random(f"{seed}-{rd}-{tid}").shuffle(loc)
                for i in loc[: len(loc) // 2]:
                    o = plain_outcome(items[i])
                    if o != expected[i]:
                        results.setdefault(i, o)
            ths = [threading.Thread(target=worker, args=(t,)) for t in range(nthreads)]
            for t in ths:
                t.start()
            for t in ths:
                t.join()
    finally:
        sys.setswitchinterval(old)
    for i, o in list(results.items())[:3]:
        c.fail(f"under {nthreads} threads {items[i][0]} returned {str(o)[:80]} instead of {str(expected[i])[:80]}")
    _extra["threaded_executions"] = rounds * nthreads * (len(items) // 2)
    yield c

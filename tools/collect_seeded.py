#!/usr/bin/env python3
"""Copies confirmed seeded mutants from the scratch worktrees into /verif/seeded/<id>-<A|B>/ with meta.json."""
import glob, json, os, re, shutil
VERIF = os.path.dirname(os.path.dirname(os.path.abspath(__file__)))
res = {}
for f in sorted(glob.glob("/tmp/wt/eval_*.json"), key=os.path.getmtime):
    res.update(json.load(open(f)))
for name, r in sorted(res.items()):
    pid, m = name.split("-")
    src = f"/tmp/wt/{pid}/_seed"
    if not os.path.exists(f"{src}/mutant{m}.diff"):
        continue
    ok = r.get("apply_rc") == 0 and "473 passed" in r.get("tests", "") and r.get("demo_clean_rc") == 0 and r.get("demo_mutant_rc") == 1
    if not ok:
        print("NOT CONFIRMED", name, r.get("tests"), r.get("demo_clean_rc"), r.get("demo_mutant_rc"))
        continue
    dst = os.path.join(VERIF, "seeded", name)
    os.makedirs(dst, exist_ok=True)
    shutil.copy(f"{src}/mutant{m}.diff", f"{dst}/patch.diff")
    shutil.copy(f"{src}/demo{m}.py", f"{dst}/demo.py")
    for extra in glob.glob(f"{src}/_*.py"):
        shutil.copy(extra, dst)
    notes = open(f"{src}/notes.md").read() if os.path.exists(f"{src}/notes.md") else ""
    # the part of the notes about this mutant
    parts = re.split(r"(?im)^#+\s*mutant\s+([AB])\b.*$", notes)
    excerpt = ""
    for i in range(1, len(parts) - 1, 2):
        if parts[i].upper() == m:
            excerpt = parts[i + 1].strip()
    caught = "quick" if r.get("quick_rc") == 1 else ("thorough" if r.get("thorough_rc") == 1 else "MISSED")
    meta = {
        "property": pid, "mutant": m,
        "breaks": f"property {pid} (see notes)",
        "needs_to_manifest": (excerpt or notes)[:1800],
        "confirmed": {"git_apply": "clean", "test_suite_with_mutant": r.get("tests"), "demo_on_unchanged_tree_rc": r.get("demo_clean_rc"),
                      "demo_with_mutant_rc": r.get("demo_mutant_rc"), "demo_with_mutant_output": r.get("demo_mutant_out", "")[-300:]},
        "ran": [f"git -C <scratch worktree> apply patch.diff", "PYTHONPATH=<wt> /venv/bin/python -m pytest -q -p no:cacheprovider", "PYTHONPATH=<wt> /venv/bin/python demo.py",
                f"PSEC_REPO=<wt> VERIF_SEED=7 ./check {pid} --tier quick", f"(if quick passes) ./check {pid} --tier thorough", "git checkout -- ."],
        "detected_by": caught, "check_output": (r.get("quick_out") if caught == "quick" else r.get("thorough_out", ""))[:900],
    }
    json.dump(meta, open(f"{dst}/meta.json", "w"), indent=1)
    print(name, caught)

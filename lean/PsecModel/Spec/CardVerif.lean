import PsecModel.Spec.ISO9564
/-!
# Visa CVV / PVV and IBM 3624, written from the algorithm descriptions (nibble level)
-/
namespace Psec.Spec

/-- decimalisation: decimal nibbles first (in order), then `A–F` minus ten (in order) -/
def decimalise (nibs : Nibs) (n : Nat) : Nibs :=
  (nibs.filter (· < 10) ++ (nibs.filter (fun x => decide (10 ≤ x))).map (· - 10)).take n

/-- CVV: `E_A(b₁) ⊕ b₂`, then EDE under `A‖B`; `EA` is single DES under the left half, `EDE` Triple-DES under the whole key -/
def cvv (EA EDE : Bytes → Bytes) (pan expiry svc : PyStr) : PyStr :=
  let d := digitsOf (pan ++ expiry ++ svc)
  let blk := d ++ List.replicate (32 - d.length) 0
  let b1 := nibsToBytes (blk.take 16)
  let b2 := nibsToBytes (blk.drop 16)
  digitChars (decimalise (bytesToNibs (EDE (xorBytes (EA b1) b2))) 3)

/-- PVV: TSP = 11 right-most PAN digits excluding the check digit ‖ key index ‖ PIN -/
def pvv (E : Bytes → Bytes) (pvki pin pan : PyStr) : PyStr :=
  let body := (digitsOf pan).dropLast
  let tsp := body.drop (body.length - 11) ++ digitsOf pvki ++ digitsOf pin
  digitChars (decimalise (bytesToNibs (E (nibsToBytes tsp))) 4)

def hexNib (c : Nat) : Nat := (hexVal c).getD 0

/-- IBM 3624 natural PIN digits (16 of them): encrypt the validation data, decimalise through the table -/
def ibmNatural (E : Bytes → Bytes) (table pan : PyStr) (start len : Nat) (pad : Nat) : Nibs :=
  let w := ((digitsOf pan).drop start).take len
  let w16 := w.take 16
  let vd := w16 ++ List.replicate (16 - w16.length) (hexNib pad)
  (bytesToNibs (E (nibsToBytes vd))).map (fun x => (digitsOf table).getD x 0)

def addMod10 : Nibs → Nibs → Nibs
  | a :: as, b :: bs => ((a + b) % 10) :: addMod10 as bs
  | _, _ => []
def subMod10 : Nibs → Nibs → Nibs
  | a :: as, b :: bs => ((a + 10 - b) % 10) :: subMod10 as bs
  | _, _ => []

def ibmPin (E : Bytes → Bytes) (table offset pan : PyStr) (start len pad : Nat) : PyStr :=
  digitChars (addMod10 (digitsOf offset) (ibmNatural E table pan start len pad))
def ibmOffset (E : Bytes → Bytes) (table pin pan : PyStr) (start len pad : Nat) : PyStr :=
  digitChars (subMod10 (digitsOf pin) (ibmNatural E table pan start len pad))

end Psec.Spec

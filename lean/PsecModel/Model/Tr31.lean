import PsecModel.Model.Mac
/-!
# Model of `psec/tr31.py`

Objects are explicit state. A method that can fail part-way returns the outcome
*and* the object as it is left (Python's assignments before the `raise` stay).
Parsers carry `rest = s[i:]` together with `i`.
-/
namespace Psec.Tr31

/-! ## Blocks -/

def hex2U (n : Nat) : PyStr := [hexDigitU (n / 16), hexDigitU (n % 16)]
def hex4U (n : Nat) : PyStr := hex2U (n / 256) ++ hex2U (n % 256)

/-- `block_id.upper() == "PB"` -/
def isPB (id : PyStr) : Bool := upper id == [80, 66]

/-- `Blocks.__setitem__` -/
def blocksSet (d : Dict) (k v : PyStr) : R Dict :=
  if k.length ≠ 2 ∨ ¬ asciiAlnum k then .error .header
  else if ¬ asciiPrintable v then .error .header
  else .ok (dictSet d k v)

/-- `Blocks.__delitem__` -/
def blocksDel (d : Dict) (k : PyStr) : R Dict :=
  match dictDel d k with
  | none => .error (.other "KeyError")
  | some d' => .ok d'

/-- one iteration of the loop in `Blocks.dump` -/
def dumpOne (id data : PyStr) : R PyStr :=
  if data.length + 4 ≤ 255 then .ok (id ++ hex2U (data.length + 4) ++ data)
  else if data.length + 10 < 65536 then .ok (id ++ [48, 48, 48, 50] ++ hex4U (data.length + 10) ++ data)
  else .error .header

def dumpAll : Dict → R PyStr
  | [] => .ok []
  | (id, data) :: r =>
    match dumpOne id data with
    | .error e => .error e
    | .ok a =>
      match dumpAll r with
      | .error e => .error e
      | .ok b => .ok (a ++ b)

def zerosS (n : Nat) : PyStr := List.replicate n 48

/-- `Blocks.dump(algo_block_size)` -/
def blocksDump (d : Dict) (bs : Nat) : R (Nat × PyStr) :=
  match dumpAll d with
  | .error e => .error e
  | .ok blocks =>
    if blocks.length % bs ≠ 0 then
      let padNum := bs - (blocks.length + 4) % bs
      if d.length + 1 > 99 then .error .header
      else .ok (d.length + 1, blocks ++ ([80, 66] ++ hex2U (4 + padNum) ++ zerosS padNum))
    else
      if d.length > 99 then .error .header
      else .ok (d.length, blocks)

/-- `parse_extended_len`; `rest` is `blocks[i:]`. Returns the data length (may be negative),
the new `rest` and the new `i`. -/
def parseExtLen (rest : PyStr) (i : Nat) : R (Int × PyStr × Nat) :=
  let lls := rest.take 2
  if lls.length ≠ 2 ∨ ¬ asciiHexchar lls then .error .header else
  let rest := rest.drop 2
  let i := i + 2
  let ll := parseHexNat lls * 2
  if ll = 0 then .error .header else
  let ls := rest.take ll
  if ls.length ≠ ll ∨ ¬ asciiHexchar ls then .error .header else
  let bl := parseHexNat ls
  .ok ((bl : Int) - 6 - ll, rest.drop ll, i + ll)

/-- the loop of `Blocks.load`; `rest = blocks[i:]`; returns the outcome and the dict as left -/
def loadLoop : Nat → PyStr → Nat → Dict → R Nat × Dict
  | 0, _, i, d => (.ok i, d)
  | n + 1, rest, i, d =>
    let id := rest.take 2
    if id.length ≠ 2 then (.error .header, d) else
    let rest := rest.drop 2
    let i := i + 2
    let ls := rest.take 2
    if ls.length ≠ 2 ∨ ¬ asciiHexchar ls then (.error .header, d) else
    let rest := rest.drop 2
    let i := i + 2
    let bl0 := parseHexNat ls
    let ext : R (Int × PyStr × Nat) :=
      if bl0 = 0 then parseExtLen rest i else .ok ((bl0 : Int) - 4, rest, i)
    match ext with
    | .error e => (.error e, d)
    | .ok (bl, rest, i) =>
      if bl < 0 then (.error .header, d) else
      let bl := bl.toNat
      let data := rest.take bl
      if data.length ≠ bl then (.error .header, d) else
      -- fix F2: pad-block data is validated like any other block's before it is skipped
      if isPB id then
        (if ¬ asciiPrintable data then (.error .header, d) else loadLoop n (rest.drop bl) (i + bl) d)
      else match blocksSet d id data with
        | .error e => (.error e, d)
        | .ok d' => loadLoop n (rest.drop bl) (i + bl) d'

/-- `Blocks.load(blocks_num, blocks)` (clears first) -/
def blocksLoad (n : Nat) (s : PyStr) : R Nat × Dict := loadLoop n s 0 []

/-! ## Header -/

structure Header where
  versionId : PyStr
  keyUsage : PyStr
  algorithm : PyStr
  modeOfUse : PyStr
  versionNum : PyStr
  exportability : PyStr
  reserved : PyStr
  blocks : Dict
  deriving DecidableEq, Repr

/-- `Header()` with all defaults -/
def Header.fresh : Header :=
  { versionId := [66], keyUsage := [48, 48], algorithm := [48], modeOfUse := [48],
    versionNum := [48, 48], exportability := [78], reserved := [48, 48], blocks := [] }

def versionOk (v : PyStr) : Bool := v == [65] || v == [66] || v == [67] || v == [68]

def setVersionId (h : Header) (v : PyStr) : R Header :=
  if versionOk v then .ok { h with versionId := v } else .error .header
def setKeyUsage (h : Header) (v : PyStr) : R Header :=
  if v.length ≠ 2 ∨ ¬ asciiAlnum v then .error .header else .ok { h with keyUsage := v }
def setAlgorithm (h : Header) (v : PyStr) : R Header :=
  if v.length ≠ 1 ∨ ¬ asciiAlnum v then .error .header else .ok { h with algorithm := v }
def setModeOfUse (h : Header) (v : PyStr) : R Header :=
  if v.length ≠ 1 ∨ ¬ asciiAlnum v then .error .header else .ok { h with modeOfUse := v }
def setVersionNum (h : Header) (v : PyStr) : R Header :=
  if v.length ≠ 2 ∨ ¬ asciiAlnum v then .error .header else .ok { h with versionNum := v }
def setExportability (h : Header) (v : PyStr) : R Header :=
  if v.length ≠ 1 ∨ ¬ asciiAlnum v then .error .header else .ok { h with exportability := v }

/-- `Header(version_id, key_usage, algorithm, mode_of_use, version_num, exportability)` -/
def Header.mk' (v ku alg mou vn ex : PyStr) : R Header :=
  match setVersionId Header.fresh v with
  | .error e => .error e
  | .ok h => match setKeyUsage h ku with
    | .error e => .error e
    | .ok h => match setAlgorithm h alg with
      | .error e => .error e
      | .ok h => match setModeOfUse h mou with
        | .error e => .error e
        | .ok h => match setVersionNum h vn with
          | .error e => .error e
          | .ok h => setExportability h ex

/-- `_version_id_key_block_mac_len` -/
def macLen (v : PyStr) : Option Nat :=
  if v == [65] then some 4 else if v == [66] then some 8
  else if v == [67] then some 4 else if v == [68] then some 16 else none
/-- `_version_id_algo_block_size` -/
def algoBs (v : PyStr) : Option Nat :=
  if v == [65] then some 8 else if v == [66] then some 8
  else if v == [67] then some 8 else if v == [68] then some 16 else none

def Header.assemble (h : Header) (len n : Nat) (blocks : PyStr) : PyStr :=
  h.versionId ++ zfill 4 (natToDec len) ++ h.keyUsage ++ h.algorithm ++ h.modeOfUse ++
    h.versionNum ++ h.exportability ++ zfill 2 (natToDec n) ++ h.reserved ++ blocks

/-- `Header.__str__` -/
def Header.str (h : Header) : R PyStr :=
  match algoBs h.versionId with
  | none => .error (.other "KeyError")
  | some bs =>
    match blocksDump h.blocks bs with
    | .error e => .error e
    | .ok (n, blocks) => .ok (h.assemble (16 + blocks.length) n blocks)

/-- `Header.dump(key_len)` -/
def Header.dump (h : Header) (keyLen : Nat) : R PyStr :=
  match algoBs h.versionId, macLen h.versionId with
  | some bs, some ml =>
    let padLen := bs - (2 + keyLen) % bs
    match blocksDump h.blocks bs with
    | .error e => .error e
    | .ok (n, blocks) =>
      let kbLen := 16 + 4 + keyLen * 2 + padLen * 2 + ml * 2 + blocks.length
      if kbLen > 9999 then .error .header
      else .ok (h.assemble kbLen n blocks)
  | _, _ => .error (.other "KeyError")

/-- `Header.load(header)`: returns the outcome and the object as it is left -/
def Header.load (h : Header) (s : PyStr) : R Nat × Header :=
  if ¬ asciiAlnum (s.take 16) then (.error .header, h)
  else if s.length < 16 then (.error .header, h)
  else
    match setVersionId h (s.take 1) with
    | .error e => (.error e, h)
    | .ok h =>
    match setKeyUsage h ((s.take 7).drop 5) with
    | .error e => (.error e, h)
    | .ok h =>
    match setAlgorithm h ((s.take 8).drop 7) with
    | .error e => (.error e, h)
    | .ok h =>
    match setModeOfUse h ((s.take 9).drop 8) with
    | .error e => (.error e, h)
    | .ok h =>
    match setVersionNum h ((s.take 11).drop 9) with
    | .error e => (.error e, h)
    | .ok h =>
    match setExportability h ((s.take 12).drop 11) with
    | .error e => (.error e, h)
    | .ok h =>
    let h := { h with reserved := (s.take 16).drop 14 }
    let cnt := (s.take 14).drop 12
    if ¬ asciiNumeric cnt then (.error .header, h)
    else
      let r := blocksLoad (decVal cnt) (s.drop 16)
      match r.1 with
      | .error e => (.error e, { h with blocks := r.2 })
      | .ok len => (.ok (16 + len), { h with blocks := r.2 })

/-! ## KeyBlock -/

structure KB where
  kbpk : Bytes
  header : Header
  deriving DecidableEq, Repr

inductive HeaderArg where
  | none
  | str (s : PyStr)
  | obj (h : Header)

/-- `KeyBlock(kbpk, header)` -/
def KB.init (kbpk : Bytes) : HeaderArg → R KB
  | .none => .ok { kbpk := kbpk, header := Header.fresh }
  | .obj h => .ok { kbpk := kbpk, header := h }
  | .str s =>
    match (Header.fresh.load s).1 with
    | .error e => .error e
    | .ok _ => .ok { kbpk := kbpk, header := (Header.fresh.load s).2 }

def zeros (n : Nat) : Bytes := List.replicate n 0

/-- `shift_left_1`: clear the top bit, shift the big-endian integer left by one, same length -/
def shiftLeft1 (b : Bytes) : Bytes :=
  match b with
  | [] => []
  | x :: r => toBytesBEAux b.length (fromBytesBE ((x &&& 0x7F) :: r) * 2) []

/-- `_derive_des_cmac_subkey` / `_derive_aes_cmac_subkey`, given the block `s = E_key(0)` -/
def subkeysOf (s rb : Bytes) : Bytes × Bytes :=
  let k1 := if (s.headD 0) &&& 0x80 ≠ 0 then Tools.xor (shiftLeft1 s) rb else shiftLeft1 s
  let k2 := if (k1.headD 0) &&& 0x80 ≠ 0 then Tools.xor (shiftLeft1 k1) rb else shiftLeft1 k1
  (k1, k2)

def r64 : Bytes := [0, 0, 0, 0, 0, 0, 0, 0x1B]
def r128 : Bytes := [0, 0, 0, 0, 0, 0, 0, 0, 0, 0, 0, 0, 0, 0, 0, 0x87]

def desCmacSubkey (c : Ciphers) (key : Bytes) : R (Bytes × Bytes) :=
  match Des.encryptTdesEcb c key (zeros 8) with
  | .error e => .error e
  | .ok s => .ok (subkeysOf s r64)

def aesCmacSubkey (c : Ciphers) (key : Bytes) : R (Bytes × Bytes) :=
  match Aes.encryptAesEcb c key (zeros 16) with
  | .error e => .error e
  | .ok s => .ok (subkeysOf s r128)

/-- the loop `for i in calls_to_cmac` of `_b_derive` / `_d_derive`; `f i usage` is one CMAC call -/
def deriveLoop (f : UInt8 → UInt8 → R Bytes) : List UInt8 → R (Bytes × Bytes)
  | [] => .ok ([], [])
  | i :: r =>
    match f i 0 with
    | .error e => .error e
    | .ok e1 =>
      match f i 1 with
      | .error e => .error e
      | .ok a1 =>
        match deriveLoop f r with
        | .error e => .error e
        | .ok (es, as) => .ok (e1 ++ es, a1 ++ as)

def bDerive (c : Ciphers) (kbpk : Bytes) : R (Bytes × Bytes) :=
  let p : (Bytes × Bytes) × List UInt8 :=
    if kbpk.length = 16 then (([0, 0], [0, 0x80]), [1, 2]) else (([0, 1], [0, 0xC0]), [1, 2, 3])
  match desCmacSubkey c kbpk with
  | .error e => .error e
  | .ok (k1, _) =>
    deriveLoop (fun i u =>
      Mac.generateCbcMac c kbpk (Tools.xor ([i, 0, u, 0] ++ p.1.1 ++ p.1.2) k1) 1 (some 8) (some .des)) p.2

def dDerive (c : Ciphers) (kbpk : Bytes) : R (Bytes × Bytes) :=
  let p : (Bytes × Bytes) × List UInt8 :=
    if kbpk.length = 16 then (([0, 2], [0, 0x80]), [1])
    else if kbpk.length = 24 then (([0, 3], [0, 0xC0]), [1, 2])
    else (([0, 4], [1, 0]), [1, 2])
  match aesCmacSubkey c kbpk with
  | .error e => .error e
  | .ok (_, k2) =>
    match deriveLoop (fun i u =>
      Mac.generateCbcMac c kbpk
        (Tools.xor ([i, 0, u, 0] ++ p.1.1 ++ p.1.2 ++ [0x80, 0, 0, 0, 0, 0, 0, 0]) k2) 1 (some 16) (some .aes)) p.2 with
    | .error e => .error e
    | .ok (kbek, kbak) => .ok (kbek.take kbpk.length, kbak.take kbpk.length)

def cDerive (kbpk : Bytes) : Bytes × Bytes :=
  (Tools.xor kbpk (List.replicate kbpk.length 0x45), Tools.xor kbpk (List.replicate kbpk.length 0x4D))

/-- `_b_generate_mac` / `_d_generate_mac`: XOR the subkey into the last block, then CBC-MAC -/
def cmacOver (c : Ciphers) (alg : Mac.Algo) (bs : Nat) (km1 : Bytes) (kbak : Bytes) (hdr : PyStr) (keyData : Bytes) : R Bytes :=
  match encodeAscii hdr with
  | none => .error (.other "UnicodeEncodeError")
  | some hb =>
    let macData := hb ++ keyData
    let macData := dropLastN macData bs ++ Tools.xor (lastN macData bs) km1
    Mac.generateCbcMac c kbak macData 1 (some bs) (some alg)

def bGenerateMac (c : Ciphers) (kbak : Bytes) (hdr : PyStr) (keyData : Bytes) : R Bytes :=
  match desCmacSubkey c kbak with
  | .error e => .error e
  | .ok (km1, _) => cmacOver c .des 8 km1 kbak hdr keyData

def dGenerateMac (c : Ciphers) (kbak : Bytes) (hdr : PyStr) (keyData : Bytes) : R Bytes :=
  match aesCmacSubkey c kbak with
  | .error e => .error e
  | .ok (km1, _) => cmacOver c .aes 16 km1 kbak hdr keyData

def cGenerateMac (c : Ciphers) (kbak : Bytes) (hdr : PyStr) (keyData : Bytes) : R Bytes :=
  match encodeAscii hdr with
  | none => .error (.other "UnicodeEncodeError")
  | some hb => Mac.generateCbcMac c kbak (hb ++ keyData) 1 (some 4) (some .des)

/-- `(len(key) * 8).to_bytes(2, "big") + key + pad` where `pad` is what `os.urandom` returned -/
def clearKeyData (key pad : Bytes) : R Bytes :=
  match toBytesBE 2 (key.length * 8) with
  | none => .error (.other "OverflowError")
  | some l => .ok (l ++ key ++ pad)

def bWrap (c : Ciphers) (kbpk : Bytes) (hdr : PyStr) (key : Bytes) (extraPad : Nat) (entropy : Bytes) : R PyStr :=
  if ¬ (kbpk.length = 16 ∨ kbpk.length = 24) then .error .keyblock else
  match bDerive c kbpk with
  | .error e => .error e
  | .ok (kbek, kbak) =>
    let padLen := 8 - (2 + key.length + extraPad) % 8
    if entropy.length ≠ padLen + extraPad then .error (.other "entropy") else
    match clearKeyData key entropy with
    | .error e => .error e
    | .ok clear =>
      match bGenerateMac c kbak hdr clear with
      | .error e => .error e
      | .ok mac =>
        match Des.encryptTdesCbc c kbek mac clear with
        | .error e => .error e
        | .ok enc => .ok (hdr ++ toHexU enc ++ toHexU mac)

def cWrap (c : Ciphers) (kbpk : Bytes) (hdr : PyStr) (key : Bytes) (extraPad : Nat) (entropy : Bytes) : R PyStr :=
  if ¬ (kbpk.length = 8 ∨ kbpk.length = 16 ∨ kbpk.length = 24) then .error .keyblock else
  let (kbek, kbak) := cDerive kbpk
  let padLen := 8 - (2 + key.length + extraPad) % 8
  if entropy.length ≠ padLen + extraPad then .error (.other "entropy") else
  match clearKeyData key entropy with
  | .error e => .error e
  | .ok clear =>
    match encodeAscii hdr with
    | none => .error (.other "UnicodeEncodeError")
    | some hb =>
      match Des.encryptTdesCbc c kbek (hb.take 8) clear with
      | .error e => .error e
      | .ok enc =>
        match cGenerateMac c kbak hdr enc with
        | .error e => .error e
        | .ok mac => .ok (hdr ++ toHexU enc ++ toHexU mac)

def dWrap (c : Ciphers) (kbpk : Bytes) (hdr : PyStr) (key : Bytes) (extraPad : Nat) (entropy : Bytes) : R PyStr :=
  if ¬ (kbpk.length = 16 ∨ kbpk.length = 24 ∨ kbpk.length = 32) then .error .keyblock else
  match dDerive c kbpk with
  | .error e => .error e
  | .ok (kbek, kbak) =>
    let padLen := 16 - (2 + key.length + extraPad) % 16
    if entropy.length ≠ padLen + extraPad then .error (.other "entropy") else
    match clearKeyData key entropy with
    | .error e => .error e
    | .ok clear =>
      match dGenerateMac c kbak hdr clear with
      | .error e => .error e
      | .ok mac =>
        match Aes.encryptAesCbc c kbek mac clear with
        | .error e => .error e
        | .ok enc => .ok (hdr ++ toHexU enc ++ toHexU mac)

/-- the tail shared by the three `_x_unwrap`: read the 16-bit length, cut the key out -/
def extractKey (clear : Bytes) : R Bytes :=
  let kl := fromBytesBE (clear.take 2)
  if kl % 8 ≠ 0 then .error .keyblock else
  let kl := kl / 8
  let key := (clear.take (kl + 2)).drop 2
  if key.length ≠ kl then .error .keyblock else .ok key

def bUnwrap (c : Ciphers) (kbpk : Bytes) (hdr : PyStr) (keyData mac : Bytes) : R Bytes :=
  if ¬ (kbpk.length = 16 ∨ kbpk.length = 24) then .error .keyblock else
  if keyData.length < 8 ∨ keyData.length % 8 ≠ 0 then .error .keyblock else
  match bDerive c kbpk with
  | .error e => .error e
  | .ok (kbek, kbak) =>
    match Des.decryptTdesCbc c kbek mac keyData with
    | .error e => .error e
    | .ok clear =>
      match bGenerateMac c kbak hdr clear with
      | .error e => .error e
      | .ok mac' => if mac' ≠ mac then .error .keyblock else extractKey clear

def cUnwrap (c : Ciphers) (kbpk : Bytes) (hdr : PyStr) (keyData mac : Bytes) : R Bytes :=
  if ¬ (kbpk.length = 8 ∨ kbpk.length = 16 ∨ kbpk.length = 24) then .error .keyblock else
  if keyData.length < 8 ∨ keyData.length % 8 ≠ 0 then .error .keyblock else
  let (kbek, kbak) := cDerive kbpk
  match cGenerateMac c kbak hdr keyData with
  | .error e => .error e
  | .ok mac' =>
    if mac' ≠ mac then .error .keyblock else
    match encodeAscii hdr with
    | none => .error (.other "UnicodeEncodeError")
    | some hb =>
      match Des.decryptTdesCbc c kbek (hb.take 8) keyData with
      | .error e => .error e
      | .ok clear => extractKey clear

def dUnwrap (c : Ciphers) (kbpk : Bytes) (hdr : PyStr) (keyData mac : Bytes) : R Bytes :=
  if ¬ (kbpk.length = 16 ∨ kbpk.length = 24 ∨ kbpk.length = 32) then .error .keyblock else
  if keyData.length < 16 ∨ keyData.length % 16 ≠ 0 then .error .keyblock else
  match dDerive c kbpk with
  | .error e => .error e
  | .ok (kbek, kbak) =>
    match Aes.decryptAesCbc c kbek mac keyData with
    | .error e => .error e
    | .ok clear =>
      match dGenerateMac c kbak hdr clear with
      | .error e => .error e
      | .ok mac' => if mac' ≠ mac then .error .keyblock else extractKey clear

/-- `_algo_id_max_key_len.get(algorithm, len(key))` -/
def algoMaxKeyLen (alg : PyStr) (dflt : Nat) : Nat :=
  if alg == [84] then 24 else if alg == [68] then 24 else if alg == [65] then 32 else dflt

/-- effective masked key length -/
def maskedLen (h : Header) (keyLen : Nat) : Option Int → Nat
  | none => max (algoMaxKeyLen h.algorithm keyLen) keyLen
  | some m => (max m (keyLen : Int)).toNat

/-- `_wrap_dispatch[version](self, header, key, extra_pad)` -/
def wrapDispatch (c : Ciphers) (ver : PyStr) (kbpk : Bytes) (hdr : PyStr) (key : Bytes) (extraPad : Nat) (entropy : Bytes) : R PyStr :=
  if ver == [66] then bWrap c kbpk hdr key extraPad entropy
  else if ver == [68] then dWrap c kbpk hdr key extraPad entropy
  else cWrap c kbpk hdr key extraPad entropy

/-- `KeyBlock.wrap(key, masked_key_len)`; `entropy` is what the single `os.urandom` call returned.
The object is not an output: nothing is assigned. -/
def KB.wrap (c : Ciphers) (kb : KB) (key : Bytes) (mask : Option Int) (entropy : Bytes) : R PyStr :=
  if ¬ versionOk kb.header.versionId then .error .keyblock else
  let ml := maskedLen kb.header key.length mask
  match kb.header.dump ml with
  | .error e => .error e
  | .ok hdr => wrapDispatch c kb.header.versionId kb.kbpk hdr key (ml - key.length) entropy

def unwrapDispatch (c : Ciphers) (ver : PyStr) (kbpk : Bytes) (hdr : PyStr) (keyData mac : Bytes) : R Bytes :=
  if ver == [66] then bUnwrap c kbpk hdr keyData mac
  else if ver == [68] then dUnwrap c kbpk hdr keyData mac
  else cUnwrap c kbpk hdr keyData mac

/-- everything `KeyBlock.unwrap` does after `self.header.load(key_block)` -/
def unwrapTail (c : Ciphers) (kbpk : Bytes) (ver : PyStr) (s : PyStr) (headerLen : Nat) : R Bytes :=
  let lf := (s.take 5).drop 1
  if ¬ asciiNumeric lf then .error .keyblock else
  if decVal lf ≠ s.length then .error .keyblock else
  match algoBs ver, macLen ver with
  | some bs, some ml =>
    if s.length % bs ≠ 0 then .error .keyblock else
    let rest := s.drop headerLen
    match fromHexWs (lastN rest (ml * 2)) with
    | none => .error .keyblock
    | some mac =>
      if mac.length ≠ ml then .error .keyblock else
      match fromHexWs (dropLastN rest (ml * 2)) with
      | none => .error .keyblock
      | some kd => unwrapDispatch c ver kbpk (s.take headerLen) kd mac
  | _, _ => .error (.other "KeyError")

/-- `KeyBlock.unwrap(key_block)`: outcome and the object as it is left -/
def KB.unwrap (c : Ciphers) (kb : KB) (s : PyStr) : R Bytes × KB :=
  let r := kb.header.load s
  let kb' : KB := { kb with header := r.2 }
  match r.1 with
  | .error e => (.error e, kb')
  | .ok headerLen => (unwrapTail c kb.kbpk kb'.header.versionId s headerLen, kb')

/-- module-level `tr31.wrap(kbpk, header, key, masked_key_len)` -/
def wrapFn (c : Ciphers) (kbpk : Bytes) (h : HeaderArg) (key : Bytes) (mask : Option Int) (entropy : Bytes) : R PyStr :=
  match KB.init kbpk h with
  | .error e => .error e
  | .ok kb => kb.wrap c key mask entropy

/-- module-level `tr31.unwrap(kbpk, key_block)` -/
def unwrapFn (c : Ciphers) (kbpk : Bytes) (s : PyStr) : R (Header × Bytes) :=
  let r := KB.unwrap c { kbpk := kbpk, header := Header.fresh } s
  match r.1 with
  | .error e => .error e
  | .ok key => .ok (r.2.header, key)

/-! ## operations on a live object (histories, C17) -/

inductive Op where
  | unwrap (s : PyStr)
  | load (s : PyStr)
  | wrap (key : Bytes) (mask : Option Int) (entropy : Bytes)
  | setField (idx : Nat) (v : PyStr)
  | setBlock (id v : PyStr)
  | delBlock (id : PyStr)
  | str
  | dump (keyLen : Nat)
  | setKbpk (k : Bytes)

inductive Val where
  | unit
  | nat (n : Nat)
  | str (s : PyStr)
  | bytes (b : Bytes)
  deriving DecidableEq, Repr

def liftH (kb : KB) (r : R Header) : R Val × KB :=
  match r with
  | .error e => (.error e, kb)
  | .ok h => (.ok .unit, { kb with header := h })

def step (c : Ciphers) (kb : KB) : Op → R Val × KB
  | .unwrap s => let r := KB.unwrap c kb s; (r.1.map Val.bytes, r.2)
  | .load s => let r := kb.header.load s; (r.1.map Val.nat, { kb with header := r.2 })
  | .wrap key mask entropy => ((kb.wrap c key mask entropy).map Val.str, kb)
  | .setField 0 v => liftH kb (setVersionId kb.header v)
  | .setField 1 v => liftH kb (setKeyUsage kb.header v)
  | .setField 2 v => liftH kb (setAlgorithm kb.header v)
  | .setField 3 v => liftH kb (setModeOfUse kb.header v)
  | .setField 4 v => liftH kb (setVersionNum kb.header v)
  | .setField _ v => liftH kb (setExportability kb.header v)
  | .setBlock id v =>
    match blocksSet kb.header.blocks id v with
    | .error e => (.error e, kb)
    | .ok d => (.ok .unit, { kb with header := { kb.header with blocks := d } })
  | .delBlock id =>
    match blocksDel kb.header.blocks id with
    | .error e => (.error e, kb)
    | .ok d => (.ok .unit, { kb with header := { kb.header with blocks := d } })
  | .str => (kb.header.str.map Val.str, kb)
  | .dump n => ((kb.header.dump n).map Val.str, kb)
  | .setKbpk k => (.ok .unit, { kb with kbpk := k })

end Psec.Tr31

#!/bin/sh
# run every quick (or $1) check sequentially; summary at the end
cd "$(dirname "$0")/.."
tier=${1:-quick}
for i in 01 02 03 04 05 06 07 08 09 10 11 12 13 14 15 16 17 18 19 20; do
  s=$(date +%s)
  out=$(./check C$i --tier $tier 2>&1); rc=$?
  echo "C$i rc=$rc $(( $(date +%s) - s ))s :: $(echo "$out" | tail -1)"
  [ $rc -ne 0 ] && echo "$out" | head -20
done

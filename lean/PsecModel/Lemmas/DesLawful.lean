import PsecModel.Cipher.Iface
/-!
# The reference Triple-DES is a permutation: `tdesD k (tdesE k b) = b` and `tdesE k (tdesD k b) = b`

For every key (the laws do not even need an admissible key size) and every 8-byte block:
* bytes ↔ bits conversions are mutually inverse (256 cases each way);
* `IP` and `FP` are inverse permutations (64 index facts);
* a Feistel network run with the reversed key list undoes itself, whatever the round function (induction over the key list);
* EDE with `(k1, k2, k3)` is undone by DED with the same schedules.
-/
namespace Psec.DES

/-! ## bits and bytes -/

theorem byte_fin : ∀ n : Fin 256, UInt8.ofNat (bitsToNat (byteBits (UInt8.ofNat n.val))) = UInt8.ofNat n.val := by decide +kernel

theorem byte_bits (b : UInt8) : UInt8.ofNat (bitsToNat (byteBits b)) = b := by
  have := byte_fin ⟨b.toNat, b.toNat_lt⟩
  simpa using this

theorem bits_byte : ∀ b7 b6 b5 b4 b3 b2 b1 b0 : Bool,
    byteBits (UInt8.ofNat (bitsToNat [b7, b6, b5, b4, b3, b2, b1, b0])) = [b7, b6, b5, b4, b3, b2, b1, b0] := by decide

theorem bitsToBytes_bytesToBits : ∀ b : Bytes, bitsToBytes (bytesToBits b) = b
  | [] => rfl
  | x :: r => by
    have : bytesToBits (x :: r) =
        (x.toNat.testBit 7) :: (x.toNat.testBit 6) :: (x.toNat.testBit 5) :: (x.toNat.testBit 4) ::
        (x.toNat.testBit 3) :: (x.toNat.testBit 2) :: (x.toNat.testBit 1) :: (x.toNat.testBit 0) :: bytesToBits r := rfl
    rw [this]
    simp only [bitsToBytes]
    rw [bitsToBytes_bytesToBits r]
    have h := byte_bits x
    unfold byteBits at h
    simp only [] at h
    rw [h]

theorem bytesToBits_len : ∀ b : Bytes, (bytesToBits b).length = 8 * b.length
  | [] => rfl
  | x :: r => by
    simp only [bytesToBits, List.length_append, bytesToBits_len r, byteBits, List.length_cons, List.length_nil]; omega

theorem cons_of_len {α : Type} {n : Nat} (s : List α) (h : s.length = n + 1) : ∃ a r, s = a :: r ∧ r.length = n := by
  cases s with
  | nil => simp at h
  | cons a r => exact ⟨a, r, rfl, by simpa using h⟩

theorem bytesToBits_bitsToBytes : ∀ (n : Nat) (x : Bits), x.length = 8 * n →
    bytesToBits (bitsToBytes x) = x ∧ (bitsToBytes x).length = n
  | 0, x, h => by
    have : x = [] := List.eq_nil_of_length_eq_zero (by omega)
    subst this; exact ⟨rfl, rfl⟩
  | n + 1, x, h => by
    obtain ⟨b7, s1, rfl, h1⟩ := cons_of_len (n := 8 * n + 7) x (by omega)
    obtain ⟨b6, s2, rfl, h2⟩ := cons_of_len (n := 8 * n + 6) s1 (by omega)
    obtain ⟨b5, s3, rfl, h3⟩ := cons_of_len (n := 8 * n + 5) s2 (by omega)
    obtain ⟨b4, s4, rfl, h4⟩ := cons_of_len (n := 8 * n + 4) s3 (by omega)
    obtain ⟨b3, s5, rfl, h5⟩ := cons_of_len (n := 8 * n + 3) s4 (by omega)
    obtain ⟨b2, s6, rfl, h6⟩ := cons_of_len (n := 8 * n + 2) s5 (by omega)
    obtain ⟨b1, s7, rfl, h7⟩ := cons_of_len (n := 8 * n + 1) s6 (by omega)
    obtain ⟨b0, s8, rfl, h8⟩ := cons_of_len (n := 8 * n) s7 (by omega)
    obtain ⟨i1, i2⟩ := bytesToBits_bitsToBytes n s8 h8
    simp only [bitsToBytes, bytesToBits, List.length_cons, i2]
    rw [bits_byte, i1]
    exact ⟨rfl, trivial⟩

/-! ## permutations -/

theorem permute_eq (tbl : List Nat) (bits : Bits) : permute tbl bits = tbl.map (fun i => bits.getD (i - 1) false) := by
  unfold permute
  apply List.map_congr_left
  intro i _
  simp [List.getD_eq_getElem?_getD]

theorem permute_len (tbl : List Nat) (bits : Bits) : (permute tbl bits).length = tbl.length := by
  rw [permute_eq]; simp

theorem ipfp_fin : ∀ j : Fin 64,
    (FP.getD (IP.getD j.val 0 - 1) 0 - 1 = j.val ∧ IP.getD j.val 0 - 1 < 64) ∧
    (IP.getD (FP.getD j.val 0 - 1) 0 - 1 = j.val ∧ FP.getD j.val 0 - 1 < 64) := by decide +kernel

theorem IP_len : IP.length = 64 := by decide
theorem FP_len : FP.length = 64 := by decide

theorem getD_map_lt {α β : Type} (f : α → β) (l : List α) (i : Nat) (d : β) (d' : α) (h : i < l.length) :
    (l.map f).getD i d = f (l.getD i d') := by
  simp [List.getD_eq_getElem?_getD, h]

/-- composing two 64-entry tables whose index maps are mutually inverse gives the identity on 64-bit blocks -/
theorem permute_comp (T1 T2 : List Nat) (h1 : T1.length = 64) (h2 : T2.length = 64)
    (hinv : ∀ j : Fin 64, T2.getD (T1.getD j.val 0 - 1) 0 - 1 = j.val ∧ T1.getD j.val 0 - 1 < 64)
    (x : Bits) (hx : x.length = 64) : permute T1 (permute T2 x) = x := by
  rw [permute_eq T1, permute_eq T2]
  apply List.ext_getElem
  · simp [h1, hx]
  · intro j hj1 hj2
    have hj : j < 64 := by rw [hx] at hj2; exact hj2
    obtain ⟨e1, e2⟩ := hinv ⟨j, hj⟩
    simp only [] at e1 e2
    rw [List.getElem_map]
    have g1 : T1[j] = T1.getD j 0 := by
      rw [List.getD_eq_getElem?_getD, List.getElem?_eq_getElem (by omega), Option.getD_some]
    rw [g1]
    rw [getD_map_lt (fun i => x.getD (i - 1) false) T2 _ false 0 (by rw [h2]; exact e2)]
    show x.getD (T2.getD (T1.getD j 0 - 1) 0 - 1) false = x[j]
    rw [e1, List.getD_eq_getElem?_getD, List.getElem?_eq_getElem hj2, Option.getD_some]

theorem ip_fp (x : Bits) (hx : x.length = 64) : permute IP (permute FP x) = x :=
  permute_comp IP FP IP_len FP_len (fun j => (ipfp_fin j).1) x hx
theorem fp_ip (x : Bits) (hx : x.length = 64) : permute FP (permute IP x) = x :=
  permute_comp FP IP FP_len IP_len (fun j => (ipfp_fin j).2) x hx

/-! ## the Feistel network -/

theorem xorBits_len : ∀ a b : Bits, (xorBits a b).length = min a.length b.length
  | [], _ => by simp [xorBits]
  | _ :: _, [] => by simp [xorBits]
  | a :: s, b :: k => by simp [xorBits, xorBits_len s k]

theorem xorBits_cancel : ∀ a b : Bits, a.length ≤ b.length → xorBits (xorBits a b) b = a
  | [], _, _ => by simp [xorBits]
  | a :: s, [], h => by simp at h
  | a :: s, b :: k, h => by
    simp only [xorBits]
    rw [xorBits_cancel s k (by simpa using h)]
    cases a <;> cases b <;> rfl

theorem P_len : P.length = 32 := by decide
theorem feistelF_len (r k : Bits) : (feistelF r k).length = 32 := by
  unfold feistelF; rw [permute_len]; exact P_len

def Half (s : Bits × Bits) : Prop := s.1.length = 32 ∧ s.2.length = 32

theorem round_half (s : Bits × Bits) (k : Bits) (h : Half s) : Half (round s k) := by
  unfold round Half
  refine ⟨h.2, ?_⟩
  simp only []
  rw [xorBits_len, h.1, feistelF_len]; rfl

theorem rounds_half : ∀ (ks : List Bits) (s : Bits × Bits), Half s → Half (ks.foldl round s)
  | [], s, h => h
  | k :: r, s, h => by simp only [List.foldl_cons]; exact rounds_half r _ (round_half s k h)

theorem round_swap (s : Bits × Bits) (k : Bits) (h : Half s) : round (round s k).swap k = s.swap := by
  obtain ⟨l, r⟩ := s
  unfold round
  simp only [Prod.swap]
  rw [xorBits_cancel _ _ (by rw [h.1, feistelF_len]; exact Nat.le_refl _)]

theorem feistel_inv : ∀ (ks : List Bits) (s : Bits × Bits), Half s →
    ks.reverse.foldl round (ks.foldl round s).swap = s.swap
  | [], s, _ => rfl
  | k :: r, s, h => by
    rw [List.foldl_cons, List.reverse_cons, List.foldl_append, feistel_inv r _ (round_half s k h)]
    simp only [List.foldl_cons, List.foldl_nil]
    exact round_swap s k h

theorem desCore_len (ks : List Bits) (b : Bits) : (desCore ks b).length = 64 := by
  unfold desCore; simp only []; rw [permute_len]; exact FP_len

theorem desCore_inv (ks : List Bits) (b : Bits) (hb : b.length = 64) : desCore ks.reverse (desCore ks b) = b := by
  have hip : (permute IP b).length = 64 := by rw [permute_len]; exact IP_len
  have h0 : Half ((permute IP b).take 32, (permute IP b).drop 32) := by
    unfold Half; simp [hip]
  have hn := rounds_half ks _ h0
  unfold desCore
  simp only []
  generalize hs : ks.foldl round ((permute IP b).take 32, (permute IP b).drop 32) = sn at hn
  have hlen : (sn.2 ++ sn.1).length = 64 := by simp [hn.1, hn.2]
  rw [ip_fp _ hlen]
  have t1 : (sn.2 ++ sn.1).take 32 = sn.2 := by rw [List.take_append_of_le_length (by rw [hn.2]; exact Nat.le_refl _), List.take_of_length_le (by rw [hn.2]; exact Nat.le_refl _)]
  have t2 : (sn.2 ++ sn.1).drop 32 = sn.1 := by rw [List.drop_append_of_le_length (by rw [hn.2]; exact Nat.le_refl _), List.drop_of_length_le (by rw [hn.2]; exact Nat.le_refl _), List.nil_append]
  rw [t1, t2]
  have := feistel_inv ks _ h0
  rw [hs] at this
  have e : (sn.2, sn.1) = sn.swap := rfl
  rw [e, this]
  simp only [Prod.swap, List.take_append_drop]
  exact fp_ip b hb

theorem desCore_inv' (ks : List Bits) (b : Bits) (hb : b.length = 64) : desCore ks (desCore ks.reverse b) = b := by
  have := desCore_inv ks.reverse b hb
  rwa [List.reverse_reverse] at this

end Psec.DES

namespace Psec
open Psec.DES

/-- **the reference Triple-DES satisfies the four TDES laws** (for every key, admissible or not) -/
theorem refTdes_laws (k b : Bytes) (hb : b.length = 8) :
    DES.tdesD k (DES.tdesE k b) = b ∧ DES.tdesE k (DES.tdesD k b) = b ∧ (DES.tdesE k b).length = 8 ∧ (DES.tdesD k b).length = 8 := by
  have hx : (bytesToBits b).length = 64 := by rw [bytesToBits_len, hb]
  have l64 : ∀ ks x, (desCore ks x).length = 8 * 8 := fun ks x => desCore_len ks x
  unfold DES.tdesD DES.tdesE
  refine ⟨?_, ?_, ?_, ?_⟩
  · unfold tdesDBits tdesEBits
    rw [(bytesToBits_bitsToBytes 8 _ (l64 _ _)).1, desCore_inv _ _ (desCore_len _ _), desCore_inv' _ _ (desCore_len _ _),
      desCore_inv _ _ hx, bitsToBytes_bytesToBits]
  · unfold tdesDBits tdesEBits
    rw [(bytesToBits_bitsToBytes 8 _ (l64 _ _)).1, desCore_inv' _ _ (desCore_len _ _), desCore_inv _ _ (desCore_len _ _),
      desCore_inv' _ _ hx, bitsToBytes_bytesToBits]
  · exact (bytesToBits_bitsToBytes 8 _ (l64 _ _)).2
  · exact (bytesToBits_bitsToBytes 8 _ (l64 _ _)).2

end Psec

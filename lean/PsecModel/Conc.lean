/-!
# Abstract interleaving machine and schedule independence (C18)

Threads are lists of atomic steps over a shared store `G` and a private store `L`; a schedule is any
list of thread ids. If no step writes the shared store, every schedule leaves it unchanged and every
thread computes what it computes when run alone.

The second half defines the *effect summary* data (`FnEffect`) that `harness/effects.py` regenerates
from the Python source on every run, the decidable check `checkEffects`, and the step semantics
`stepOf` that interprets a summary: a function whose summary lists no shared write is a read-only step.
-/
namespace Psec.Conc

structure Step (G L : Type) where
  run : G → L → G × L

def Step.ReadOnly {G L} (s : Step G L) : Prop := ∀ g l, (s.run g l).1 = g

structure Thread (G L : Type) where
  prog : List (Step G L)
  loc : L

structure Cfg (G L : Type) where
  glob : G
  thr : List (Thread G L)

def runAlone {G L} (g : G) : List (Step G L) → L → L
  | [], l => l
  | s :: r, l => runAlone g r (s.run g l).2

def stepAt {G L} (c : Cfg G L) (t : Nat) : Cfg G L :=
  match c.thr[t]? with
  | none => c
  | some th =>
    match th.prog with
    | [] => c
    | s :: r =>
      let (g', l') := s.run c.glob th.loc
      { glob := g', thr := c.thr.set t { prog := r, loc := l' } }

def exec {G L} (c : Cfg G L) (sched : List Nat) : Cfg G L := sched.foldl stepAt c

def AllReadOnly {G L} (c : Cfg G L) : Prop := ∀ th ∈ c.thr, ∀ s ∈ th.prog, s.ReadOnly

def finalOf {G L} (g : G) (th : Thread G L) : L := runAlone g th.prog th.loc

theorem stepAt_inv {G L} (c : Cfg G L) (t : Nat) (h : AllReadOnly c) :
    (stepAt c t).glob = c.glob ∧ AllReadOnly (stepAt c t) ∧
    (stepAt c t).thr.map (finalOf c.glob) = c.thr.map (finalOf c.glob) := by
  unfold stepAt
  cases ht : c.thr[t]? with
  | none => exact ⟨rfl, h, rfl⟩
  | some th =>
    simp only []
    cases hp : th.prog with
    | nil => exact ⟨rfl, h, rfl⟩
    | cons s r =>
      simp only []
      have hmem : th ∈ c.thr := List.mem_of_getElem? ht
      have hs : s.ReadOnly := h th hmem s (by rw [hp]; simp)
      have hg : (s.run c.glob th.loc).1 = c.glob := hs _ _
      refine ⟨hg, ?_, ?_⟩
      · intro th' hth' s' hs'
        rcases List.mem_or_eq_of_mem_set hth' with h1 | h1
        · exact h th' h1 s' hs'
        · subst h1; exact h th hmem s' (by rw [hp]; simp at hs' ⊢; right; exact hs')
      · rw [List.map_set]
        have : finalOf c.glob { prog := r, loc := (s.run c.glob th.loc).2 } = finalOf c.glob th := by
          simp [finalOf, hp, runAlone]
        rw [this]
        have hlt : t < c.thr.length := by
          rcases List.getElem?_eq_some_iff.mp ht with ⟨hlt, _⟩; exact hlt
        apply List.ext_getElem (by simp)
        intro i h1 h2
        simp only [List.getElem_set, List.getElem_map]
        split
        · rename_i e; subst e
          have : c.thr[t] = th := by
            rcases List.getElem?_eq_some_iff.mp ht with ⟨_, e⟩; exact e
          rw [this]
        · rfl

/-- For every schedule (any length, any order, any number of threads): the shared store is
unchanged and each thread's eventual result equals the result of running it alone. -/
theorem schedule_independent {G L} (c : Cfg G L) (sched : List Nat) (h : AllReadOnly c) :
    (exec c sched).glob = c.glob ∧
    (exec c sched).thr.map (finalOf c.glob) = c.thr.map (finalOf c.glob) := by
  induction sched generalizing c with
  | nil => exact ⟨rfl, rfl⟩
  | cons t r ih =>
    obtain ⟨hg, hro, hf⟩ := stepAt_inv c t h
    have := ih (stepAt c t) hro
    simp only [exec, List.foldl_cons] at this ⊢
    rw [hg] at this
    exact ⟨this.1, this.2.trans hf⟩

/-! ## effect summaries -/

/-- What `harness/effects.py` reports for one Python function. -/
structure FnEffect where
  name : String
  sharedWrites : List String
  argWrites : List String
  selfWrites : List String
  unknown : List String
  deriving Repr, DecidableEq

/-- methods that are *meant* to change their object: constructors, setters, `load`, block assignment / removal,
and `KeyBlock.unwrap` (which re-loads its own header). Every other function must not write `self`. -/
def allowedSelfWriters : List String := [
  "tr31.Blocks.__init__", "tr31.Blocks.__setitem__", "tr31.Blocks.__delitem__", "tr31.Blocks.load",
  "tr31.Header.__init__", "tr31.Header.load",
  "tr31.Header.version_id.setter", "tr31.Header.key_usage.setter", "tr31.Header.algorithm.setter",
  "tr31.Header.mode_of_use.setter", "tr31.Header.version_num.setter", "tr31.Header.exportability.setter",
  "tr31.KeyBlock.__init__", "tr31.KeyBlock.unwrap"]

/-- the only import-time registrations -/
def allowedModuleWrites : List String := ["mac:_pad_dispatch[1]", "mac:_pad_dispatch[2]", "mac:_pad_dispatch[3]"]

/-- the deterministic public operations (and `wrap`, which must not modify its arguments) that must be present in the summary;
public names only: private helpers may be renamed, merged or split freely (every function that *is* in the summary is judged) -/
def requiredFunctions : List String := [
  "aes.encrypt_aes_cbc", "aes.encrypt_aes_ecb", "aes.decrypt_aes_cbc", "aes.decrypt_aes_ecb",
  "des.encrypt_tdes_cbc", "des.encrypt_tdes_ecb", "des.decrypt_tdes_cbc", "des.decrypt_tdes_ecb",
  "des.generate_kcv", "des.apply_key_variant", "des.adjust_key_parity",
  "mac.generate_cbc_mac", "mac.generate_retail_mac", "mac.pad_iso_1", "mac.pad_iso_2", "mac.pad_iso_3",
  "cvv.generate_cvv", "pin.generate_visa_pvv", "pin.generate_ibm3624_pin", "pin.generate_ibm3624_offset",
  "pinblock.encode_pinblock_iso_0", "pinblock.encode_pinblock_iso_2", "pinblock.encode_pan_field_iso_4",
  "pinblock.decode_pinblock_iso_0", "pinblock.decode_pinblock_iso_2", "pinblock.decode_pinblock_iso_3",
  "pinblock.decode_pin_field_iso_4", "pinblock.decipher_pinblock_iso_4",
  "tools.xor", "tools.odd_parity", "tr31.unwrap", "tr31.wrap", "tr31.KeyBlock.wrap", "tr31.KeyBlock.unwrap",
  "tr31.Header.dump", "tr31.Header.__str__", "tr31.Blocks.dump"]

def fnClean (f : FnEffect) : Bool :=
  f.sharedWrites.isEmpty && f.argWrites.isEmpty && f.unknown.isEmpty &&
    (f.selfWrites.isEmpty || allowedSelfWriters.contains f.name)

/-- the whole-package obligation -/
def checkEffects (fs : List FnEffect) (moduleWrites : List String) : Bool :=
  fs.all fnClean && moduleWrites.all (allowedModuleWrites.contains ·) &&
    requiredFunctions.all (fun n => fs.any (fun f => f.name == n))

/-! ### per-property scope: the modules a property's functions live in, closed under `import` -/

/-- modules reachable from `roots` along the package's own imports (fuel = number of rounds; the package has under ten modules) -/
def modClosure (imports : List (String × List String)) : Nat → List String → List String
  | 0, ms => ms
  | fuel + 1, ms =>
    let next := ms ++ (ms.flatMap (fun m => (imports.lookup m).getD [])).filter (fun m => !ms.contains m)
    modClosure imports fuel next.eraseDups

/-- every function of the modules in scope is clean, and those modules register nothing at import time beyond the permitted;
`byModule` / `writesByModule` are the summary's rows and the import-time writes grouped by module -/
def scopeClean (byModule : List (String × List FnEffect)) (writesByModule : List (String × List String))
    (imports : List (String × List String)) (roots : List String) : Bool :=
  let ms := modClosure imports 12 roots
  (byModule.filter (fun g => ms.contains g.1)).all (fun g => g.2.all fnClean) &&
    (writesByModule.filter (fun g => ms.contains g.1)).all (fun g => g.2.all (allowedModuleWrites.contains ·)) &&
    roots.all (fun r => ((byModule.lookup r).getD []).length != 0)

/-- Semantics of a summary: the shared store is a list of named cells; executing the function may
change exactly the cells its summary lists (here: to an arbitrary new value chosen by `newVal`). -/
def stepOf (f : FnEffect) (newVal : String → Nat → Nat) (compute : List (String × Nat) → Nat → Nat) :
    Step (List (String × Nat)) Nat :=
  { run := fun g l =>
      (g.map (fun cell => if f.sharedWrites.contains cell.1 then (cell.1, newVal cell.1 cell.2) else cell),
       compute g l) }

theorem stepOf_readOnly (f : FnEffect) (nv : String → Nat → Nat) (cp : List (String × Nat) → Nat → Nat)
    (h : f.sharedWrites = []) : (stepOf f nv cp).ReadOnly := by
  intro g l
  simp only [stepOf, h]
  induction g with
  | nil => rfl
  | cons c r ih => simp [List.map_cons] at ih ⊢

theorem fnClean_shared (f : FnEffect) (h : fnClean f = true) : f.sharedWrites = [] := by
  unfold fnClean at h
  simp only [Bool.and_eq_true, List.isEmpty_iff] at h
  exact h.1.1.1

end Psec.Conc

import PsecModel.Model.Des
import PsecModel.Lemmas.Cbc
import PsecModel.Lemmas.RefLawful
/-!
# C19 — TDES/AES ECB and CBC wrappers are exact, length-preserving inverses

For every cipher parameter satisfying the block-cipher laws (`c.Lawful`), every valid key and IV and
every data of a positive whole number of blocks. The meaning of the library calls is the model in
`Cipher/Iface.lean` (per-block map; textbook chaining), validated by the correspondence check.
-/
namespace Psec.Props.C19
open Psec

theorem len_eq_div_mul (n bs : Nat) (h : n % bs = 0) : n = n / bs * bs := by
  have := Nat.div_add_mod n bs
  rw [h, Nat.mul_comm] at this; omega

/-- valid data: a positive whole number of blocks -/
def DataOk (bs : Nat) (data : Bytes) : Prop := 0 < data.length ∧ data.length % bs = 0

/-! ## TDES -/

theorem tdes_ecb_enc_ok (c : Ciphers) (key data : Bytes) (hk : tdesKeyOk key = true) (hd : DataOk 8 data) :
    Des.encryptTdesEcb c key data = .ok (ecbUpdate (c.tdesE key) 8 (data.length / 8) data) := by
  unfold Des.encryptTdesEcb; obtain ⟨h1, h2⟩ := hd
  have : ¬ (data.length < 8 ∨ data.length % 8 ≠ 0) := by omega
  simp [this, hk]
theorem tdes_ecb_dec_ok (c : Ciphers) (key data : Bytes) (hk : tdesKeyOk key = true) (hd : DataOk 8 data) :
    Des.decryptTdesEcb c key data = .ok (ecbUpdate (c.tdesD key) 8 (data.length / 8) data) := by
  unfold Des.decryptTdesEcb; obtain ⟨h1, h2⟩ := hd
  have : ¬ (data.length < 8 ∨ data.length % 8 ≠ 0) := by omega
  simp [this, hk]
theorem tdes_cbc_enc_ok (c : Ciphers) (key iv data : Bytes) (hk : tdesKeyOk key = true) (hiv : iv.length = 8) (hd : DataOk 8 data) :
    Des.encryptTdesCbc c key iv data = .ok (cbcEncUpdate (c.tdesE key) 8 (data.length / 8) iv data).1 := by
  unfold Des.encryptTdesCbc; obtain ⟨h1, h2⟩ := hd
  have : ¬ (data.length < 8 ∨ data.length % 8 ≠ 0) := by omega
  simp [this, hk, hiv]
theorem tdes_cbc_dec_ok (c : Ciphers) (key iv data : Bytes) (hk : tdesKeyOk key = true) (hiv : iv.length = 8) (hd : DataOk 8 data) :
    Des.decryptTdesCbc c key iv data = .ok (cbcDecUpdate (c.tdesD key) 8 (data.length / 8) iv data).1 := by
  unfold Des.decryptTdesCbc; obtain ⟨h1, h2⟩ := hd
  have : ¬ (data.length < 8 ∨ data.length % 8 ≠ 0) := by omega
  simp [this, hk, hiv]

/-- ECB: decryption inverts encryption, output length = input length -/
theorem tdes_ecb_dec_enc (c : Ciphers) (hc : c.Lawful) (key data : Bytes) (hk : tdesKeyOk key = true) (hd : DataOk 8 data) :
    ∃ ct, Des.encryptTdesEcb c key data = .ok ct ∧ ct.length = data.length ∧ Des.decryptTdesEcb c key ct = .ok data := by
  have hl := len_eq_div_mul _ _ hd.2
  have hlen := ecbUpdate_length (c.tdesE key) 8 (data.length / 8) data (hc.tdes_ed key hk).enc_len hl
  refine ⟨_, tdes_ecb_enc_ok c key data hk hd, hlen, ?_⟩
  rw [tdes_ecb_dec_ok c key _ hk ⟨by rw [hlen]; exact hd.1, by rw [hlen]; exact hd.2⟩, hlen,
    ecb_inv _ _ 8 _ data (hc.tdes_ed key hk) hl]

theorem tdes_ecb_enc_dec (c : Ciphers) (hc : c.Lawful) (key data : Bytes) (hk : tdesKeyOk key = true) (hd : DataOk 8 data) :
    ∃ pt, Des.decryptTdesEcb c key data = .ok pt ∧ pt.length = data.length ∧ Des.encryptTdesEcb c key pt = .ok data := by
  have hl := len_eq_div_mul _ _ hd.2
  have hlen := ecbUpdate_length (c.tdesD key) 8 (data.length / 8) data (hc.tdes_de key hk).enc_len hl
  refine ⟨_, tdes_ecb_dec_ok c key data hk hd, hlen, ?_⟩
  rw [tdes_ecb_enc_ok c key _ hk ⟨by rw [hlen]; exact hd.1, by rw [hlen]; exact hd.2⟩, hlen,
    ecb_inv _ _ 8 _ data (hc.tdes_de key hk) hl]

theorem tdes_cbc_dec_enc (c : Ciphers) (hc : c.Lawful) (key iv data : Bytes) (hk : tdesKeyOk key = true)
    (hiv : iv.length = 8) (hd : DataOk 8 data) :
    ∃ ct, Des.encryptTdesCbc c key iv data = .ok ct ∧ ct.length = data.length ∧ Des.decryptTdesCbc c key iv ct = .ok data := by
  have hl := len_eq_div_mul _ _ hd.2
  have hlen := cbcEnc_length (c.tdesE key) 8 (data.length / 8) iv data (hc.tdes_ed key hk).enc_len hl
  refine ⟨_, tdes_cbc_enc_ok c key iv data hk hiv hd, hlen, ?_⟩
  rw [tdes_cbc_dec_ok c key iv _ hk hiv ⟨by rw [hlen]; exact hd.1, by rw [hlen]; exact hd.2⟩, hlen,
    cbc_dec_enc _ _ 8 _ iv data (hc.tdes_ed key hk) hl]

theorem tdes_cbc_enc_dec (c : Ciphers) (hc : c.Lawful) (key iv data : Bytes) (hk : tdesKeyOk key = true)
    (hiv : iv.length = 8) (hd : DataOk 8 data) :
    ∃ pt, Des.decryptTdesCbc c key iv data = .ok pt ∧ pt.length = data.length ∧ Des.encryptTdesCbc c key iv pt = .ok data := by
  have hl := len_eq_div_mul _ _ hd.2
  have hlen := cbcDec_length (c.tdesD key) 8 (data.length / 8) iv data (hc.tdes_de key hk).enc_len hl
  refine ⟨_, tdes_cbc_dec_ok c key iv data hk hiv hd, hlen, ?_⟩
  rw [tdes_cbc_enc_ok c key iv _ hk hiv ⟨by rw [hlen]; exact hd.1, by rw [hlen]; exact hd.2⟩, hlen,
    cbc_enc_dec _ _ 8 _ iv data (hc.tdes_de key hk) hl]

/-- empty or non-block-multiple data, a wrong key size or a wrong IV size is `ValueError`, for all four TDES wrappers -/
theorem tdes_reject (c : Ciphers) (key iv data : Bytes)
    (h : ¬ DataOk 8 data ∨ tdesKeyOk key = false ∨ iv.length ≠ 8) :
    (¬ DataOk 8 data ∨ tdesKeyOk key = false →
      Des.encryptTdesEcb c key data = .error .value ∧ Des.decryptTdesEcb c key data = .error .value) ∧
    Des.encryptTdesCbc c key iv data = .error .value ∧ Des.decryptTdesCbc c key iv data = .error .value := by
  unfold DataOk at *
  unfold Des.encryptTdesEcb Des.decryptTdesEcb Des.encryptTdesCbc Des.decryptTdesCbc
  by_cases hd : data.length < 8 ∨ data.length % 8 ≠ 0
  · simp [hd]
  · have hdok : 0 < data.length ∧ data.length % 8 = 0 := by omega
    by_cases hk : tdesKeyOk key = true
    · have hiv : iv.length ≠ 8 := by
        rcases h with h | h | h
        · exact absurd hdok h
        · rw [hk] at h; cases h
        · exact h
      simp [hd, hk, hiv, hdok]
    · simp [hd, hk]

/-! ## AES -/

theorem aes_ecb_enc_ok (c : Ciphers) (key data : Bytes) (hk : aesKeyOk key = true) (hd : DataOk 16 data) :
    Aes.encryptAesEcb c key data = .ok (ecbUpdate (c.aesE key) 16 (data.length / 16) data) := by
  unfold Aes.encryptAesEcb; obtain ⟨h1, h2⟩ := hd
  have : ¬ (data.length < 16 ∨ data.length % 16 ≠ 0) := by omega
  simp [this, hk]
theorem aes_ecb_dec_ok (c : Ciphers) (key data : Bytes) (hk : aesKeyOk key = true) (hd : DataOk 16 data) :
    Aes.decryptAesEcb c key data = .ok (ecbUpdate (c.aesD key) 16 (data.length / 16) data) := by
  unfold Aes.decryptAesEcb; obtain ⟨h1, h2⟩ := hd
  have : ¬ (data.length < 16 ∨ data.length % 16 ≠ 0) := by omega
  simp [this, hk]
theorem aes_cbc_enc_ok (c : Ciphers) (key iv data : Bytes) (hk : aesKeyOk key = true) (hiv : iv.length = 16) (hd : DataOk 16 data) :
    Aes.encryptAesCbc c key iv data = .ok (cbcEncUpdate (c.aesE key) 16 (data.length / 16) iv data).1 := by
  unfold Aes.encryptAesCbc; obtain ⟨h1, h2⟩ := hd
  have : ¬ (data.length < 16 ∨ data.length % 16 ≠ 0) := by omega
  simp [this, hk, hiv]
theorem aes_cbc_dec_ok (c : Ciphers) (key iv data : Bytes) (hk : aesKeyOk key = true) (hiv : iv.length = 16) (hd : DataOk 16 data) :
    Aes.decryptAesCbc c key iv data = .ok (cbcDecUpdate (c.aesD key) 16 (data.length / 16) iv data).1 := by
  unfold Aes.decryptAesCbc; obtain ⟨h1, h2⟩ := hd
  have : ¬ (data.length < 16 ∨ data.length % 16 ≠ 0) := by omega
  simp [this, hk, hiv]

theorem aes_ecb_dec_enc (c : Ciphers) (hc : c.Lawful) (key data : Bytes) (hk : aesKeyOk key = true) (hd : DataOk 16 data) :
    ∃ ct, Aes.encryptAesEcb c key data = .ok ct ∧ ct.length = data.length ∧ Aes.decryptAesEcb c key ct = .ok data := by
  have hl := len_eq_div_mul _ _ hd.2
  have hlen := ecbUpdate_length (c.aesE key) 16 (data.length / 16) data (hc.aes_ed key hk).enc_len hl
  refine ⟨_, aes_ecb_enc_ok c key data hk hd, hlen, ?_⟩
  rw [aes_ecb_dec_ok c key _ hk ⟨by rw [hlen]; exact hd.1, by rw [hlen]; exact hd.2⟩, hlen,
    ecb_inv _ _ 16 _ data (hc.aes_ed key hk) hl]

theorem aes_ecb_enc_dec (c : Ciphers) (hc : c.Lawful) (key data : Bytes) (hk : aesKeyOk key = true) (hd : DataOk 16 data) :
    ∃ pt, Aes.decryptAesEcb c key data = .ok pt ∧ pt.length = data.length ∧ Aes.encryptAesEcb c key pt = .ok data := by
  have hl := len_eq_div_mul _ _ hd.2
  have hlen := ecbUpdate_length (c.aesD key) 16 (data.length / 16) data (hc.aes_de key hk).enc_len hl
  refine ⟨_, aes_ecb_dec_ok c key data hk hd, hlen, ?_⟩
  rw [aes_ecb_enc_ok c key _ hk ⟨by rw [hlen]; exact hd.1, by rw [hlen]; exact hd.2⟩, hlen,
    ecb_inv _ _ 16 _ data (hc.aes_de key hk) hl]

theorem aes_cbc_dec_enc (c : Ciphers) (hc : c.Lawful) (key iv data : Bytes) (hk : aesKeyOk key = true)
    (hiv : iv.length = 16) (hd : DataOk 16 data) :
    ∃ ct, Aes.encryptAesCbc c key iv data = .ok ct ∧ ct.length = data.length ∧ Aes.decryptAesCbc c key iv ct = .ok data := by
  have hl := len_eq_div_mul _ _ hd.2
  have hlen := cbcEnc_length (c.aesE key) 16 (data.length / 16) iv data (hc.aes_ed key hk).enc_len hl
  refine ⟨_, aes_cbc_enc_ok c key iv data hk hiv hd, hlen, ?_⟩
  rw [aes_cbc_dec_ok c key iv _ hk hiv ⟨by rw [hlen]; exact hd.1, by rw [hlen]; exact hd.2⟩, hlen,
    cbc_dec_enc _ _ 16 _ iv data (hc.aes_ed key hk) hl]

theorem aes_cbc_enc_dec (c : Ciphers) (hc : c.Lawful) (key iv data : Bytes) (hk : aesKeyOk key = true)
    (hiv : iv.length = 16) (hd : DataOk 16 data) :
    ∃ pt, Aes.decryptAesCbc c key iv data = .ok pt ∧ pt.length = data.length ∧ Aes.encryptAesCbc c key iv pt = .ok data := by
  have hl := len_eq_div_mul _ _ hd.2
  have hlen := cbcDec_length (c.aesD key) 16 (data.length / 16) iv data (hc.aes_de key hk).enc_len hl
  refine ⟨_, aes_cbc_dec_ok c key iv data hk hiv hd, hlen, ?_⟩
  rw [aes_cbc_enc_ok c key iv _ hk hiv ⟨by rw [hlen]; exact hd.1, by rw [hlen]; exact hd.2⟩, hlen,
    cbc_enc_dec _ _ 16 _ iv data (hc.aes_de key hk) hl]

theorem aes_reject (c : Ciphers) (key iv data : Bytes)
    (h : ¬ DataOk 16 data ∨ aesKeyOk key = false ∨ iv.length ≠ 16) :
    (¬ DataOk 16 data ∨ aesKeyOk key = false →
      Aes.encryptAesEcb c key data = .error .value ∧ Aes.decryptAesEcb c key data = .error .value) ∧
    Aes.encryptAesCbc c key iv data = .error .value ∧ Aes.decryptAesCbc c key iv data = .error .value := by
  unfold DataOk at *
  unfold Aes.encryptAesEcb Aes.decryptAesEcb Aes.encryptAesCbc Aes.decryptAesCbc
  by_cases hd : data.length < 16 ∨ data.length % 16 ≠ 0
  · simp [hd]
  · have hdok : 0 < data.length ∧ data.length % 16 = 0 := by omega
    by_cases hk : aesKeyOk key = true
    · have hiv : iv.length ≠ 16 := by
        rcases h with h | h | h
        · exact absurd hdok h
        · rw [hk] at h; cases h
        · exact h
      simp [hd, hk, hiv, hdok]
    · simp [hd, hk]

/-! ## block-by-block identities -/

/-- ECB equals independent per-block encryption -/
theorem tdes_ecb_blockwise (c : Ciphers) (key b rest : Bytes) (hk : tdesKeyOk key = true) (hb : b.length = 8)
    (hr : DataOk 8 rest) :
    Des.encryptTdesEcb c key (b ++ rest) = .ok (c.tdesE key b ++ ecbUpdate (c.tdesE key) 8 (rest.length / 8) rest) := by
  have hd : DataOk 8 (b ++ rest) := by unfold DataOk at *; simp [hb] <;> omega
  rw [tdes_ecb_enc_ok c key _ hk hd]
  have : (b ++ rest).length / 8 = rest.length / 8 + 1 := by simp [hb] <;> omega
  rw [this, ecb_blockwise _ _ _ _ _ hb]

/-- CBC equals the textbook chaining `c₁ = E(p₁ ⊕ iv)`, `cᵢ = E(pᵢ ⊕ cᵢ₋₁)` -/
theorem tdes_cbc_textbook (c : Ciphers) (key iv p rest : Bytes) (hk : tdesKeyOk key = true) (hiv : iv.length = 8)
    (hp : p.length = 8) (hr : DataOk 8 rest) :
    Des.encryptTdesCbc c key iv (p ++ rest) =
      .ok (c.tdesE key (xorBytes p iv) ++ (cbcEncUpdate (c.tdesE key) 8 (rest.length / 8) (c.tdesE key (xorBytes p iv)) rest).1) := by
  have hd : DataOk 8 (p ++ rest) := by unfold DataOk at *; simp [hp] <;> omega
  rw [tdes_cbc_enc_ok c key iv _ hk hiv hd]
  have : (p ++ rest).length / 8 = rest.length / 8 + 1 := by simp [hp] <;> omega
  rw [this, cbc_textbook _ _ _ _ _ _ hp]

theorem aes_ecb_blockwise (c : Ciphers) (key b rest : Bytes) (hk : aesKeyOk key = true) (hb : b.length = 16)
    (hr : DataOk 16 rest) :
    Aes.encryptAesEcb c key (b ++ rest) = .ok (c.aesE key b ++ ecbUpdate (c.aesE key) 16 (rest.length / 16) rest) := by
  have hd : DataOk 16 (b ++ rest) := by unfold DataOk at *; simp [hb] <;> omega
  rw [aes_ecb_enc_ok c key _ hk hd]
  have : (b ++ rest).length / 16 = rest.length / 16 + 1 := by simp [hb] <;> omega
  rw [this, ecb_blockwise _ _ _ _ _ hb]

theorem aes_cbc_textbook (c : Ciphers) (key iv p rest : Bytes) (hk : aesKeyOk key = true) (hiv : iv.length = 16)
    (hp : p.length = 16) (hr : DataOk 16 rest) :
    Aes.encryptAesCbc c key iv (p ++ rest) =
      .ok (c.aesE key (xorBytes p iv) ++ (cbcEncUpdate (c.aesE key) 16 (rest.length / 16) (c.aesE key (xorBytes p iv)) rest).1) := by
  have hd : DataOk 16 (p ++ rest) := by unfold DataOk at *; simp [hp] <;> omega
  rw [aes_cbc_enc_ok c key iv _ hk hiv hd]
  have : (p ++ rest).length / 16 = rest.length / 16 + 1 := by simp [hp] <;> omega
  rw [this, cbc_textbook _ _ _ _ _ _ hp]

/-- the key check value is the leftmost bytes of the encryption of a zero block -/
theorem kcv_spec (c : Ciphers) (key : Bytes) (n : Nat) :
    Des.generateKcv c key n =
      if tdesKeyOk key then .ok ((c.tdesE key (List.replicate 8 0)).take n) else .error .value := by
  unfold Des.generateKcv pyTake pySlice normIdx
  by_cases hk : tdesKeyOk key = true
  · simp only [hk, not_true_eq_false, if_false, if_true]
    have : ¬ ((n : Int) < 0) := by omega
    simp only [this, if_false, Int.toNat_natCast, List.drop_zero]
    congr 1
    rcases Nat.le_total n (c.tdesE key (List.replicate 8 0)).length with h | h
    · rw [Nat.min_eq_left h]
    · rw [Nat.min_eq_right h, List.take_of_length_le (Nat.le_refl _), List.take_of_length_le h]
  · simp [hk]

/-! ## non-vacuity: a lawful cipher exists (the identity); the reference ciphers meet the published vectors in `Cipher/VectorsAes.lean`,
`Cipher/VectorsDes.lean` (kernel-evaluated tests, built by `PsecModel.Tests` in the thorough tier) -/
example : (⟨fun _ b => b, fun _ b => b, fun _ b => b, fun _ b => b⟩ : Ciphers).Lawful :=
  ⟨fun _ _ _ _ => rfl, fun _ _ _ _ => rfl, fun _ _ _ h => h, fun _ _ _ h => h,
   fun _ _ _ _ => rfl, fun _ _ _ _ => rfl, fun _ _ _ h => h, fun _ _ _ h => h⟩

/-- **the hypothesis is not only satisfiable, it holds for the reference ciphers** the driver executes the model with
(Feistel involution + `IP`/`FP` inverse for TDES; S-box, ShiftRows, MixColumns inverses + key-expansion shape for AES), so
every `(hc)` theorem of C01, C02, C04, C12, C13, C14 and C19 holds unconditionally for the model as run in the
correspondence check -/
theorem ref_lawful : refCiphers.Lawful := refCiphers_lawful

theorem ref_tdes_cbc_dec_enc (key iv data : Bytes) (hk : tdesKeyOk key = true) (hiv : iv.length = 8) (hd : DataOk 8 data) :
    ∃ ct, Des.encryptTdesCbc refCiphers key iv data = .ok ct ∧ ct.length = data.length ∧
      Des.decryptTdesCbc refCiphers key iv ct = .ok data :=
  tdes_cbc_dec_enc refCiphers ref_lawful key iv data hk hiv hd
theorem ref_aes_cbc_dec_enc (key iv data : Bytes) (hk : aesKeyOk key = true) (hiv : iv.length = 16) (hd : DataOk 16 data) :
    ∃ ct, Aes.encryptAesCbc refCiphers key iv data = .ok ct ∧ ct.length = data.length ∧
      Aes.decryptAesCbc refCiphers key iv ct = .ok data :=
  aes_cbc_dec_enc refCiphers ref_lawful key iv data hk hiv hd

end Psec.Props.C19

import PsecModel.Lemmas.SpecEquiv4
/-!
# `unwrap` = the specification's verifier, on every string on which psec's documented laxities cannot show
-/
namespace Psec.Tr31
open Psec Psec.Spec Psec.Spec.TR31 Psec.Props.C17

/-- the three places where psec's reader is deliberately laxer than the grammar, excluded: whitespace between hex pairs of the
binary sections; a repeated optional-block id (psec keeps the last value in the first position); a pad-block id written in
another letter case (psec skips `pb`, `Pb`, `pB` like `PB`) -/
structure Canon (bl : List (PyStr × PyStr)) (rest : PyStr) : Prop where
  nows : ∀ ch ∈ rest, isSpaceC ch = false
  ids : ((bl.filter (fun b => b.1 ≠ [80, 66])).map Prod.fst).Nodup
  pb : ∀ b ∈ bl, isPB b.1 = true → b.1 = [80, 66]

theorem storeBlocks_canon : ∀ (bl : List (PyStr × PyStr)) (acc : Dict),
    (∀ b ∈ bl, isPB b.1 = true → b.1 = [80, 66]) →
    ((acc ++ bl.filter (fun b => b.1 ≠ [80, 66])).map Prod.fst).Nodup →
    storeBlocks bl acc = acc ++ bl.filter (fun b => b.1 ≠ [80, 66])
  | [], acc, _, _ => by simp [storeBlocks]
  | (id, data) :: r, acc, hpb, hnd => by
    rw [storeBlocks_cons]
    by_cases h : isPB id = true
    · have e := hpb (id, data) (by simp) h
      simp only at e
      rw [if_pos h]
      have hf : ((id, data) :: r).filter (fun b => decide (b.1 ≠ [80, 66])) = r.filter (fun b => decide (b.1 ≠ [80, 66])) := by
        rw [List.filter_cons, if_neg (by simp [e])]
      rw [hf] at hnd ⊢
      exact storeBlocks_canon r acc (fun b hb => hpb b (by simp [hb])) hnd
    · rw [if_neg h]
      have hne : id ≠ [80, 66] := by intro e; rw [e] at h; exact h isPB_PB
      have hf : ((id, data) :: r).filter (fun b => decide (b.1 ≠ [80, 66])) = (id, data) :: r.filter (fun b => decide (b.1 ≠ [80, 66])) := by
        rw [List.filter_cons, if_pos (by simp [hne])]
      rw [hf] at hnd ⊢
      have hfresh : id ∉ acc.map Prod.fst := by
        intro hin
        rw [List.map_append, List.map_cons] at hnd
        exact (List.nodup_append.mp hnd).2.2 id hin id (by simp) rfl
      rw [dictSet_fresh acc id data hfresh,
        storeBlocks_canon r (acc ++ [(id, data)]) (fun b hb => hpb b (by simp [hb])) (by simpa [List.append_assoc] using hnd)]
      simp [List.append_assoc]

theorem lastN_nows (rest : PyStr) (n : Nat) (h : ∀ ch ∈ rest, isSpaceC ch = false) : ∀ ch ∈ lastN rest n, isSpaceC ch = false :=
  fun ch hc => h ch (List.mem_of_mem_drop hc)
theorem dropLastN_nows (rest : PyStr) (n : Nat) (h : ∀ ch ∈ rest, isSpaceC ch = false) : ∀ ch ∈ dropLastN rest n, isSpaceC ch = false :=
  fun ch hc => h ch (List.mem_of_mem_take hc)


/-- **psec ⇒ specification**, for every string -/
theorem psec_to_spec (c : Ciphers) (hc : c.Lawful) (kbpk : Bytes) (s : PyStr) (h : Header) (key : Bytes)
    (hcanon : ∀ cnt bl rest, dec? ((s.drop 12).take 2) = some cnt → parseBlocks cnt (s.drop 16) = some (bl, rest) → Canon bl rest)
    (hu : unwrapFn c kbpk s = .ok (h, key)) : Spec.TR31.unwrap c kbpk s = some (h, key) := by
  obtain ⟨m, hlp, htl⟩ := (unwrapFn_ok_iff c kbpk s h key).mp hu
  obtain ⟨P1, P2, P3, P4, lenb, hblk, hm, f1, f2, f3, f4, f5, f6, f7⟩ := (loadPure_ok_iff s m h).mp hlp
  obtain ⟨_, hmle, hprt, _, _⟩ := (Props.C15.loadPure_spec s).2 m h hlp
  have hv1 := take1_headD s (by omega)
  rw [specUnwrap_some_iff]
  generalize hv : s.headD 0 = v at hv1 ⊢
  have hvc : v = 65 ∨ v = 66 ∨ v = 67 ∨ v = 68 := (versionOk_iff v).mp (by rw [← hv1]; exact P3)
  obtain ⟨hab, hmb, hbs8, h2ml, hml0⟩ := algo_of v hvc
  rw [f1, hv1] at htl
  obtain ⟨T1, T2, T3, mac, kd, hmac, hmacl, hkd, hdisp⟩ :=
    (unwrapTail_ok_iff c kbpk [v] s m key (bsOf v) (macLenOf v) hab hmb).mp htl
  obtain ⟨hkok, hel, hem⟩ := dispatch_ok_len c v hvc kbpk _ kd mac key hdisp
  -- the two decimal fields
  have hc12 : (s.take 14).drop 12 = (s.drop 12).take 2 := take_drop_comm s 12 14 (by omega)
  have hc1 : (s.take 5).drop 1 = (s.drop 1).take 4 := take_drop_comm s 1 5 (by omega)
  have hne12 : (s.drop 12).take 2 ≠ [] := by
    intro e; have := congrArg List.length e; rw [List.length_take, List.length_drop] at this; simp at this; omega
  have hne1 : (s.drop 1).take 4 ≠ [] := by
    intro e; have := congrArg List.length e; rw [List.length_take, List.length_drop] at this; simp at this; omega
  rw [hc12] at P4 hblk
  rw [hc1] at T1 T2
  have hdcnt : dec? ((s.drop 12).take 2) = some (decVal ((s.drop 12).take 2)) := (dec?_iff _ hne12 _).mpr ⟨P4, rfl⟩
  have hdlen : dec? ((s.drop 1).take 4) = some s.length := (dec?_iff _ hne1 _).mpr ⟨T1, T2⟩
  -- the optional blocks
  have hlp2 := loadLoop_parseBlocks (decVal ((s.drop 12).take 2)) (s.drop 16) 0 []
  unfold blocksLoad at hblk
  cases hp : parseBlocks (decVal ((s.drop 12).take 2)) (s.drop 16) with
  | none =>
    rw [hp] at hlp2
    obtain ⟨e, he⟩ := hlp2
    rw [hblk] at he; cases he
  | some q =>
    obtain ⟨bl, rest⟩ := q
    rw [hp] at hlp2
    obtain ⟨k, hk, hr, hl⟩ := hlp2
    rw [hl] at hblk
    injection hblk with e1 e2
    injection e1 with e1
    have hk' : k = lenb := by omega
    subst hk'
    have hcan := hcanon _ bl rest hdcnt hp
    have hst := storeBlocks_canon bl [] hcan.pb (by simpa using hcan.ids)
    rw [List.nil_append] at hst
    have hrest : rest = s.drop m := by rw [hr, List.drop_drop, hm]
    rw [← hrest] at hmac hkd
    -- the binary sections
    have hmac' : a2bHex (lastN rest (macLenOf v * 2)) = some mac := by
      rw [← fromHexWs_nows _ (lastN_nows rest _ hcan.nows)]; exact hmac
    have hkd' : a2bHex (dropLastN rest (macLenOf v * 2)) = some kd := by
      rw [← fromHexWs_nows _ (dropLastN_nows rest _ hcan.nows)]; exact hkd
    have hl1 := a2bHex_len _ _ hmac'
    have hl2 := a2bHex_len _ _ hkd'
    unfold lastN at hl1 hmac'
    unfold dropLastN at hl2 hkd'
    rw [List.length_drop] at hl1
    rw [List.length_take] at hl2
    have hrl : rest.length = 2 * kd.length + 2 * macLenOf v := by omega
    have hrlen : rest.length = s.length - m := by rw [hrest, List.length_drop]
    have hsub : s.length - rest.length = m := by omega
    have hmul : macLenOf v * 2 = 2 * macLenOf v := Nat.mul_comm _ _
    rw [hmul] at hmac' hkd'
    -- the header section
    have hhl : (s.take m).length = m := by rw [List.length_take, Nat.min_eq_left hmle]
    have hhm : (s.take m).length % bsOf v = 0 := by
      rw [hhl]
      have e2 : (2 * kd.length) % bsOf v = 0 := by rw [Nat.mul_mod, hem]; simp
      rcases hbs8 with e | e <;> rw [e] at T3 h2ml e2 ⊢ <;> omega
    obtain ⟨D1, D2, D3, D4⟩ :=
      (dispatch_iff c hc v hvc kbpk hkok (s.take m) hprt hhm (by rw [hhl]; omega) kd mac key hel hem hmacl).mp hdisp
    refine ⟨P2, P1, hvc, hkok, _, hdlen, hdcnt, T3, bl, rest, hp, by omega, kd, mac, hkd', hmac', hem, ?_, ?_, ?_, ?_, ?_⟩
    · rw [hsub]; exact D1
    · rw [hsub]; exact D2
    · rw [hsub]; exact D3
    · rw [hsub]; exact D4
    · unfold specHeader
      rw [hv, ← hst]
      cases h with
      | mk a1 a2 a3 a4 a5 a6 a7 a8 =>
        simp only at f1 f2 f3 f4 f5 f6 f7 e2
        rw [f1, f2, f3, f4, f5, f6, f7, ← e2, hv1, take_drop_comm s 5 7 (by omega), take_drop_comm s 7 8 (by omega),
          take_drop_comm s 8 9 (by omega), take_drop_comm s 9 11 (by omega), take_drop_comm s 11 12 (by omega),
          take_drop_comm s 14 16 (by omega)]


/-- **specification ⇒ psec**, for every string -/
theorem spec_to_psec (c : Ciphers) (hc : c.Lawful) (kbpk : Bytes) (s : PyStr) (h : Header) (key : Bytes)
    (hcanon : ∀ cnt bl rest, dec? ((s.drop 12).take 2) = some cnt → parseBlocks cnt (s.drop 16) = some (bl, rest) → Canon bl rest)
    (hs : Spec.TR31.unwrap c kbpk s = some (h, key)) : unwrapFn c kbpk s = .ok (h, key) := by
  rw [specUnwrap_some_iff] at hs
  have hv1 : 1 ≤ s.length := by omega
  have hv1 := take1_headD s hv1
  generalize hv : s.headD 0 = v at hs hv1
  obtain ⟨S1, S2, S3, S4, cnt, S5, S6, S7, bl, rest, S8, S9, enc, t, S10, S11, S12, S13, S14, S15, S16, S17⟩ := hs
  obtain ⟨hab, hmb, hbs8, h2ml, hml0⟩ := algo_of v S3
  have hcan := hcanon cnt bl rest S6 S8
  have hst := storeBlocks_canon bl [] hcan.pb (by simpa using hcan.ids)
  rw [List.nil_append] at hst
  have hlp2 := loadLoop_parseBlocks cnt (s.drop 16) 0 []
  rw [S8] at hlp2
  obtain ⟨k, hk, hr, hl⟩ := hlp2
  rw [List.length_drop] at hk
  have hc12 : (s.take 14).drop 12 = (s.drop 12).take 2 := take_drop_comm s 12 14 (by omega)
  have hc1 : (s.take 5).drop 1 = (s.drop 1).take 4 := take_drop_comm s 1 5 (by omega)
  have hne12 : (s.drop 12).take 2 ≠ [] := by
    intro e; have := congrArg List.length e; rw [List.length_take, List.length_drop] at this; simp at this; omega
  have hne1 : (s.drop 1).take 4 ≠ [] := by
    intro e; have := congrArg List.length e; rw [List.length_take, List.length_drop] at this; simp at this; omega
  obtain ⟨C1, C2⟩ := (dec?_iff _ hne12 _).mp S6
  obtain ⟨L1, L2⟩ := (dec?_iff _ hne1 _).mp S5
  -- the header record
  have hH : h.versionId = [v] ∧ h.keyUsage = (s.take 7).drop 5 ∧ h.algorithm = (s.take 8).drop 7 ∧ h.modeOfUse = (s.take 9).drop 8 ∧
      h.versionNum = (s.take 11).drop 9 ∧ h.exportability = (s.take 12).drop 11 ∧ h.reserved = (s.take 16).drop 14 ∧
      h.blocks = storeBlocks bl [] := by
    rw [S17, hst]
    unfold specHeader
    rw [hv, take_drop_comm s 5 7 (by omega), take_drop_comm s 7 8 (by omega), take_drop_comm s 8 9 (by omega),
      take_drop_comm s 9 11 (by omega), take_drop_comm s 11 12 (by omega), take_drop_comm s 14 16 (by omega)]
    exact ⟨rfl, rfl, rfl, rfl, rfl, rfl, rfl, rfl⟩
  obtain ⟨H1, H2, H3, H4, H5, H6, H7, H8⟩ := hH
  have hlp : loadPure s = .ok (16 + k, h) := by
    refine (loadPure_ok_iff s (16 + k) h).mpr ⟨S2, S1, by rw [hv1]; exact (versionOk_iff v).mpr S3, by rw [hc12]; exact C1,
      k, ?_, rfl, by rw [H1, hv1], H2, H3, H4, H5, H6, H7⟩
    unfold blocksLoad
    rw [hc12, C2, hl, H8, Nat.zero_add]
  obtain ⟨_, hmle, hprt, _, _⟩ := (Props.C15.loadPure_spec s).2 (16 + k) h hlp
  refine (unwrapFn_ok_iff c kbpk s h key).mpr ⟨16 + k, hlp, ?_⟩
  rw [H1]
  have hrest : rest = s.drop (16 + k) := by rw [hr, List.drop_drop]
  have hrlen : rest.length = s.length - (16 + k) := by rw [hrest, List.length_drop]
  have hsub : s.length - rest.length = 16 + k := by omega
  rw [hsub] at S13 S14 S15 S16
  have hmul : macLenOf v * 2 = 2 * macLenOf v := Nat.mul_comm _ _
  have hl1 := a2bHex_len _ _ S11
  have hl2 := a2bHex_len _ _ S10
  unfold hexBytes? at S10 S11
  rw [List.length_drop] at hl1
  rw [List.length_take] at hl2
  have htl : t.length = macLenOf v := by omega
  have hel : bsOf v ≤ enc.length := by omega
  have hhl : (s.take (16 + k)).length = 16 + k := by rw [List.length_take, Nat.min_eq_left hmle]
  have hhm : (s.take (16 + k)).length % bsOf v = 0 := by
    rw [hhl]
    have e2 : (2 * enc.length) % bsOf v = 0 := by rw [Nat.mul_mod, S12]; simp
    have hrl : rest.length = 2 * enc.length + 2 * macLenOf v := by omega
    rcases hbs8 with e | e <;> rw [e] at S7 h2ml e2 ⊢ <;> omega
  refine (unwrapTail_ok_iff c kbpk [v] s (16 + k) key (bsOf v) (macLenOf v) hab hmb).mpr
    ⟨by rw [hc1]; exact L1, by rw [hc1]; exact L2, S7, t, enc, ?_, htl, ?_, ?_⟩
  · rw [← hrest, fromHexWs_nows _ (lastN_nows rest _ hcan.nows)]
    unfold lastN; rw [hmul]; exact S11
  · rw [← hrest, fromHexWs_nows _ (dropLastN_nows rest _ hcan.nows)]
    unfold dropLastN; rw [hmul]; exact S10
  · exact (dispatch_iff c hc v S3 kbpk S4 (s.take (16 + k)) hprt hhm (by rw [hhl]; omega) enc t key hel S12 htl).mpr
      ⟨S13, S14, S15, S16⟩

/-- **psec's `unwrap` and the specification's verifier agree on every string on which psec's documented laxities cannot show** -/
theorem unwrap_eq_spec (c : Ciphers) (hc : c.Lawful) (kbpk : Bytes) (s : PyStr)
    (hcanon : ∀ cnt bl rest, dec? ((s.drop 12).take 2) = some cnt → parseBlocks cnt (s.drop 16) = some (bl, rest) → Canon bl rest) :
    (unwrapFn c kbpk s).toOption = Spec.TR31.unwrap c kbpk s := by
  cases hu : unwrapFn c kbpk s with
  | ok r =>
    obtain ⟨h, key⟩ := r
    rw [psec_to_spec c hc kbpk s h key hcanon hu]; rfl
  | error e =>
    cases hs : Spec.TR31.unwrap c kbpk s with
    | none => rfl
    | some r =>
      obtain ⟨h, key⟩ := r
      rw [spec_to_psec c hc kbpk s h key hcanon hs] at hu; cases hu

end Psec.Tr31

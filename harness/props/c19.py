"""C19 — TDES/AES ECB and CBC wrappers are exact, length-preserving inverses."""
import core
from core import Case, enc_b, psec

OBLIGATIONS = ["Psec.Props.C19.tdes_ecb_dec_enc", "Psec.Props.C19.tdes_ecb_enc_dec", "Psec.Props.C19.tdes_cbc_dec_enc", "Psec.Props.C19.tdes_cbc_enc_dec", "Psec.Props.C19.tdes_reject", "Psec.Props.C19.aes_ecb_dec_enc", "Psec.Props.C19.aes_ecb_enc_dec", "Psec.Props.C19.aes_cbc_dec_enc", "Psec.Props.C19.aes_cbc_enc_dec", "Psec.Props.C19.aes_reject", "Psec.Props.C19.tdes_ecb_blockwise", "Psec.Props.C19.tdes_cbc_textbook", "Psec.Props.C19.aes_ecb_blockwise", "Psec.Props.C19.aes_cbc_textbook", "Psec.Props.C19.kcv_spec", "Psec.Props.C19.ref_lawful", "Psec.refTdes_laws", "Psec.refAes_laws", "Psec.Props.C19.ref_tdes_cbc_dec_enc", "Psec.Props.C19.ref_aes_cbc_dec_enc"]
THOROUGH_MODULES = ["PsecModel.Tests"]
TRUSTED_BASE = ["Lean 4.33 kernel", "hypothesis Ciphers.Lawful (block decryption inverts block encryption) for the cryptography package's TDES/AES",
                "library model of Cipher(...).encryptor().update() on whole blocks (Cipher/Iface.lean), validated by this correspondence against the Lean reference TDES/AES",
                "correspondence harness and compiled driver"]
RULE = ("all key sizes x 1..6 blocks x random keys/IVs/data for the eight wrappers and generate_kcv; rejection: every data length 0..3 blocks, "
        "key / IV lengths 0..40; distinct = distinct driver lines")
HYPOTHESES = ["Ciphers.Lawful"]
ALGS = {"tdes": (8, (8, 16, 24), "des"), "aes": (16, (16, 24, 32), "aes")}


def rb(rng, n):
    return bytes(rng.getrandbits(8) for _ in range(n))


def shaped_blocks(rng, nb, bs, iv):
    """nb blocks of data: half of the time random, otherwise drawn with repetition from a pool of one to three blocks (a repeated
    block before a new one, A A B / A B A B / A A A), with the IV, the zero block or the all-ones block among them - ECB maps
    equal blocks to equal blocks and CBC must not"""
    t = rng.random()
    if t < 0.5 or nb == 1 and t < 0.8:
        return rb(rng, nb * bs)
    pool = [rb(rng, bs) for _ in range(rng.choice((1, 2, 2, 3)))]
    if t > 0.85:
        pool.append(rng.choice((iv, bytes(bs), b"\xff" * bs)))
    blocks = [rng.choice(pool) for _ in range(nb)]
    if nb >= 3 and rng.random() < 0.5:
        blocks[0], blocks[1], blocks[2] = pool[0], pool[0], pool[-1]      # A A B
    return b"".join(blocks)


def xor(a, b):
    return bytes(x ^ y for x, y in zip(a, b))


def volume_case(rng, alg, bs, ks, mod, blocks_total):
    """one key used for many calls whose total passes `blocks_total` cipher blocks (2^20 + a little: beyond any per-key usage counter
    an implementation might keep); every call is judged against the `cryptography` package directly (the Lean reference ciphers
    would take minutes for this volume), so the case has no driver lines"""
    from cryptography.hazmat.primitives.ciphers import Cipher, algorithms, modes
    c = Case(f"{alg}:volume-under-one-key", {"key": ks, "blocks": blocks_total})
    key = rb(rng, ks)
    ref_alg = algorithms.AES(key) if alg == "aes" else algorithms.TripleDES(key if ks == 24 else (key + key[:8] if ks == 16 else key * 3))
    chunk = 1 << 16                      # blocks per call
    done, calls = 0, 0
    data = rb(rng, 64) * (chunk * bs // 64)
    iv = rb(rng, bs)
    while done <= blocks_total:
        which = calls % 4
        fn = [f"{mod}.encrypt_{alg}_ecb", f"{mod}.encrypt_{alg}_cbc", f"{mod}.decrypt_{alg}_ecb", f"{mod}.decrypt_{alg}_cbc"][which]
        args = (key, data) if which % 2 == 0 else (key, iv, data)
        r = core.call_impl(fn, args)
        mode = modes.ECB() if which % 2 == 0 else modes.CBC(iv)
        ctx = Cipher(ref_alg, mode)
        op = ctx.encryptor() if which < 2 else ctx.decryptor()
        want = op.update(data) + op.finalize()
        if not r.ok:
            c.fail(f"{fn} raised {r.err} after {done} blocks under this key ({r.exc!r})"[:300])
            break
        if r.value != want:
            c.fail(f"{fn} differs from the reference after {done} blocks under this key")
            break
        done += chunk
        calls += 1
    c.desc["calls"] = calls
    c.key = f"volume-{alg}-{ks}"
    return c


def gigabyte_case(rng, alg, bs, ks, mod, ops):
    """thorough tier only: one call on 2^30 + 2 blocks of data (an implementation that slices inputs above some large threshold
    changes path there), compared piecewise with the `cryptography` package; decryption must also invert encryption"""
    from cryptography.hazmat.primitives.ciphers import Cipher, algorithms, modes
    c = Case(f"{alg}:gigabyte", {"key": ks, "ops": ops})
    c.key = f"gigabyte-{alg}"
    key, iv = rb(rng, ks), rb(rng, bs)
    ref_alg = algorithms.AES(key) if alg == "aes" else algorithms.TripleDES(key if ks == 24 else (key + key[:8] if ks == 16 else key * 3))
    chunk = rb(rng, 1 << 20)
    n = (1 << 30) + 2 * bs
    data = chunk * (n // len(chunk)) + chunk[: n % len(chunk)]

    def ref(mode, enc, inp):
        ctx = Cipher(ref_alg, mode)
        op = ctx.encryptor() if enc else ctx.decryptor()
        for off in range(0, len(inp), 1 << 24):
            yield op.update(inp[off:off + (1 << 24)])
        yield op.finalize()

    for which in ops:
        cbc = which.endswith("cbc")
        enc = which.startswith("encrypt")
        fn = f"{mod}.{which.split('_')[0]}_{alg}_{'cbc' if cbc else 'ecb'}"
        r = core.call_impl(fn, (key, iv, data) if cbc else (key, data))
        if not r.ok:
            c.fail(f"{fn} raised {r.err} on {n} bytes")
            continue
        if len(r.value) != n:
            c.fail(f"{fn} returned {len(r.value)} bytes for {n}")
            continue
        off = 0
        for piece in ref(modes.CBC(iv) if cbc else modes.ECB(), enc, data):
            if r.value[off:off + len(piece)] != piece:
                blk = next(i for i in range(0, len(piece), bs) if r.value[off + i:off + i + bs] != piece[i:i + bs])
                c.fail(f"{fn} on {n} bytes differs from the reference in the block at offset {off + blk}")
                break
            off += len(piece)
        del r
    return c


def generate(rng, tier, seed):
    import warnings
    warnings.simplefilter("ignore")
    def _mem_gb():
        try:
            for line in open("/proc/meminfo"):
                if line.startswith("MemAvailable:"):
                    return int(line.split()[1]) / (1 << 20)
        except OSError:
            pass
        return 0
    if tier == "thorough" and _mem_gb() >= 24:      # the case holds about 10 GiB at its peak; skipped on smaller machines
        yield gigabyte_case(rng, "aes", 16, rng.choice((16, 24, 32)), "aes", ("encrypt_cbc", "decrypt_cbc", "encrypt_ecb", "decrypt_ecb"))
        yield gigabyte_case(rng, "tdes", 8, 16, "des", ("decrypt_cbc",))
    # fixed points of CBC: (key, IV, data) constructed so that CBC encryption maps the data onto itself (C(i-1) = D(C(i)) xor C(i), built
    # backwards with the `cryptography` package) - and, read the other way, CBC decryption of it returns it too: valid inputs on which
    # "the output differs from the input" does not hold; also an IV equal to the first data block, and data equal to the key
    from cryptography.hazmat.primitives.ciphers import Cipher as _C, algorithms as _A, modes as _M
    for alg, (bs, ksizes, mod) in ALGS.items():
        for ks in ksizes:
            for nblk in (1, 2, 3):
                key = rb(rng, ks)
                a_ = _A.AES(key) if alg == "aes" else _A.TripleDES(key if ks == 24 else (key + key[:8] if ks == 16 else key * 3))
                dec = lambda b, a_=a_: (lambda d: d.update(b) + d.finalize())(_C(a_, _M.ECB()).decryptor())
                blocks = [rb(rng, bs)]
                for _ in range(nblk):
                    blocks.insert(0, bytes(x ^ y for x, y in zip(dec(blocks[0]), blocks[0])))
                iv, data = blocks[0], b"".join(blocks[1:])
                c = Case(f"{alg}:cbc-fixed-point", {"key": ks, "blocks": nblk})
                e = c.call(f"{mod}.encrypt_{alg}_cbc", key, iv, data)
                d = c.call(f"{mod}.decrypt_{alg}_cbc", key, iv, data)
                if not e.ok or e.value != data:
                    c.fail(f"CBC encryption of a constructed fixed point: {'raised ' + e.err if not e.ok else 'result differs from the textbook value (the data itself)'}")
                if not d.ok:
                    c.fail(f"CBC decryption of valid data raised {d.err}")
                yield c
            # chosen ciphertexts: the plaintext is computed backwards (reference CBC / ECB decryption with the `cryptography` package)
            # so that the ciphertext consists of remarkable blocks - all zero, all ones, the IV itself, one block repeated, a
            # block equal to the plaintext block before it: values a chaining variable or a sentinel might be confused with
            for shape in ("zero-first", "zero-middle", "ones", "iv-first", "iv-later", "repeat", "all-iv"):
                key, iv = rb(rng, ks), rb(rng, bs)
                a_ = _A.AES(key) if alg == "aes" else _A.TripleDES(key if ks == 24 else (key + key[:8] if ks == 16 else key * 3))
                r1_, r2_ = rb(rng, bs), rb(rng, bs)
                target = {"zero-first": [bytes(bs), r1_, r2_], "zero-middle": [r1_, bytes(bs), r2_, bytes(bs)], "ones": [r1_, b"\xff" * bs, r2_],
                          "iv-first": [iv, r1_], "iv-later": [r1_, r2_, iv, r1_], "repeat": [r1_, r1_, r2_, r1_], "all-iv": [iv, iv]}[shape]
                ct = b"".join(target)
                dcbc = _C(a_, _M.CBC(iv)).decryptor()
                data = dcbc.update(ct) + dcbc.finalize()
                c = Case(f"{alg}:cbc-chosen-ciphertext:{shape}", {"key": ks})
                e = c.call(f"{mod}.encrypt_{alg}_cbc", key, iv, data)
                d = c.call(f"{mod}.decrypt_{alg}_cbc", key, iv, ct)
                if not e.ok or e.value != ct:
                    c.fail(f"CBC encryption whose ciphertext is {shape}: {'raised ' + e.err if not e.ok else 'result differs from the textbook value'}")
                if not d.ok or d.value != data:
                    c.fail(f"CBC decryption of a ciphertext that is {shape}: {'raised ' + d.err if not d.ok else 'result differs from the textbook value'}")
                decb = _C(a_, _M.ECB()).decryptor()
                pe = decb.update(ct) + decb.finalize()
                e2 = c.call(f"{mod}.encrypt_{alg}_ecb", key, pe)
                d2 = c.call(f"{mod}.decrypt_{alg}_ecb", key, ct)
                if not e2.ok or e2.value != ct or not d2.ok or d2.value != pe:
                    c.fail(f"ECB with a ciphertext that is {shape}: result differs from the textbook value")
                yield c
            key = rb(rng, ks)
            data = rb(rng, 2 * bs)
            c = Case(f"{alg}:iv-equals-first-block / data-equals-key", {"key": ks})
            c.call(f"{mod}.encrypt_{alg}_cbc", key, data[:bs], data)
            c.call(f"{mod}.decrypt_{alg}_cbc", key, data[:bs], data)
            kd = (key * 2)[: 2 * bs] if len(key) % bs else key[: (len(key) // bs) * bs] or (key * 2)[:bs]
            c.call(f"{mod}.encrypt_{alg}_ecb", key, kd)
            c.call(f"{mod}.decrypt_{alg}_ecb", key, kd)
            yield c
    yield volume_case(rng, "tdes", 8, rng.choice((8, 16, 24)), "des", (1 << 20) + (1 << 17))
    yield volume_case(rng, "aes", 16, rng.choice((16, 24, 32)), "aes", (1 << 20) + (1 << 17))
    reps = 6 if tier == "quick" else 40
    for alg, (bs, ksizes, mod) in ALGS.items():
        for ks in ksizes:
            for nb in range(1, 7):
                for _ in range(reps):
                    key, iv = rb(rng, ks), rb(rng, bs)
                    data = shaped_blocks(rng, nb, bs, iv)
                    c = Case(f"{alg}:roundtrip", {"key": ks, "blocks": nb})
                    e = c.call(f"{mod}.encrypt_{alg}_ecb", key, data)
                    d = c.call(f"{mod}.decrypt_{alg}_ecb", key, data)
                    ce = c.call(f"{mod}.encrypt_{alg}_cbc", key, iv, data)
                    cd = c.call(f"{mod}.decrypt_{alg}_cbc", key, iv, data)
                    if not (e.ok and d.ok and ce.ok and cd.ok):
                        c.fail("valid input rejected")
                        yield c
                        continue
                    if not all(len(x.value) == len(data) for x in (e, d, ce, cd)):
                        c.fail("output length differs from input length")
                    r1 = c.call(f"{mod}.decrypt_{alg}_ecb", key, e.value)
                    r2 = c.call(f"{mod}.encrypt_{alg}_ecb", key, d.value)
                    r3 = c.call(f"{mod}.decrypt_{alg}_cbc", key, iv, ce.value)
                    r4 = c.call(f"{mod}.encrypt_{alg}_cbc", key, iv, cd.value)
                    if not all(x.ok and x.value == data for x in (r1, r2, r3, r4)):
                        c.fail("decryption does not invert encryption")
                    # ECB = independent per-block encryption; CBC = textbook chaining (per-block oracle: Lean reference cipher)
                    idx = []
                    prev = iv
                    for j in range(nb):
                        blk = data[j * bs:(j + 1) * bs]
                        i1 = c.line(f"cipher\t{alg}_e\t{enc_b(key)}\t{enc_b(blk)}")
                        i2 = c.line(f"cipher\t{alg}_e\t{enc_b(key)}\t{enc_b(xor(blk, prev))}")
                        idx.append((j, i1, i2))
                        prev = ce.value[j * bs:(j + 1) * bs]

                    def p(rep, e=e, ce=ce, idx=idx, bs=bs):
                        for j, i1, i2 in idx:
                            if rep[i1] != "ok\t" + enc_b(e.value[j * bs:(j + 1) * bs]):
                                return f"ECB block {j} is not the independent encryption of plaintext block {j}"
                            if rep[i2] != "ok\t" + enc_b(ce.value[j * bs:(j + 1) * bs]):
                                return f"CBC block {j} is not E(p_j xor c_(j-1))"
                    c.pred("ECB per block / CBC textbook chaining", p)
                    yield c
        # keys with repeated 8-byte components (K1|K1|K3, K1|K2|K2, K1|K2|K1, K|K|K, K|K), all-equal bytes, weak-looking patterns:
        # every admissible key is a key, whatever its internal structure
        if alg == "tdes":
            a8, b8, c8 = rb(rng, 8), rb(rng, 8), rb(rng, 8)
            special = [a8 + a8 + c8, a8 + b8 + b8, a8 + b8 + a8, a8 + a8 + a8, a8 + a8, a8 + b8, bytes(8), bytes(24), b"\xff" * 16, b"\x01" * 24,
                       b"12345678", b"0123456789ABCDEF", b"0123456789abcdef01234567"]
        else:
            a8 = rb(rng, 8)
            special = [a8 * 2, a8 * 3, a8 * 4, bytes(16), bytes(32), b"\xff" * 24,
                       # keys that happen to be ASCII text / ASCII hex digits are binary keys like any other
                       b"1" * 16, b"1" * 32, b"00112233445566778899AABBCCDDEEFF", (b"0123456789abcdef" * 2)[:24], b"A" * 32]
        for ks_ in ksizes:
            special += core.special_keys(rng, ks_, des=(alg == "tdes"), limit=10 if tier == "quick" else None)
        for key in special:
            iv, data = rb(rng, bs), rb(rng, 3 * bs)
            c = Case(f"{alg}:structured-key", {"key": key.hex()[:16], "len": len(key)})
            e = c.call(f"{mod}.encrypt_{alg}_ecb", key, data)
            ce = c.call(f"{mod}.encrypt_{alg}_cbc", key, iv, data)
            if e.ok and ce.ok:
                c.call(f"{mod}.decrypt_{alg}_ecb", key, e.value)
                c.call(f"{mod}.decrypt_{alg}_cbc", key, iv, ce.value)
            else:
                c.fail("admissible key rejected")
            if alg == "tdes":
                for n in (2, 3, 8):
                    c.call("des.generate_kcv", key, n)
            yield c
        # long data around the sizes an implementation might chunk or buffer at: the model computes textbook chaining over the
        # whole input, so a context restarted (or finalised) mid-stream shows as a disagreement
        for ln in sorted(set(x - x % bs for x in core.big_lengths(rng, tier, bs))):
            key, iv, data = rb(rng, rng.choice(ksizes)), rb(rng, bs), rb(rng, ln)
            c = Case(f"{alg}:long", {"len": ln})
            e = c.call(f"{mod}.encrypt_{alg}_ecb", key, data)
            ce = c.call(f"{mod}.encrypt_{alg}_cbc", key, iv, data)
            cd = c.call(f"{mod}.decrypt_{alg}_cbc", key, iv, data)
            d = c.call(f"{mod}.decrypt_{alg}_ecb", key, data)
            if not (e.ok and ce.ok and cd.ok and d.ok) or not all(len(x.value) == ln for x in (e, ce, cd, d)):
                c.fail("long valid input rejected or output length differs")
            else:
                # textbook chaining checked on the implementation alone with single-block calls at every 64th block and at the
                # blocks next to each 1 KiB boundary
                enc1 = getattr(getattr(psec, mod), f"encrypt_{alg}_ecb")
                for j in range(ln // bs):
                    if j % 64 == 0 or (j * bs) % 1024 < 2 * bs:
                        prev = iv if j == 0 else ce.value[(j - 1) * bs:j * bs]
                        if enc1(key, xor(data[j * bs:(j + 1) * bs], prev)) != ce.value[j * bs:(j + 1) * bs]:
                            c.fail(f"CBC block {j} of {ln // bs} is not E(p_j xor c_(j-1))")
                            break
                        if enc1(key, data[j * bs:(j + 1) * bs]) != e.value[j * bs:(j + 1) * bs]:
                            c.fail(f"ECB block {j} is not the independent encryption of plaintext block {j}")
                            break
            yield c
        # rejection: every data length 0..3 blocks (valid key/iv), key / iv length 0..40 (valid data)
        for fn, has_iv in ((f"encrypt_{alg}_ecb", False), (f"decrypt_{alg}_ecb", False), (f"encrypt_{alg}_cbc", True), (f"decrypt_{alg}_cbc", True)):
            for ln in range(0, 3 * bs + 1):
                key, iv, data = rb(rng, ksizes[ln % 3]), rb(rng, bs), rb(rng, ln)
                c = Case(f"{alg}:datalen", {"fn": fn, "len": ln})
                r = c.call(f"{mod}.{fn}", *((key, iv, data) if has_iv else (key, data)))
                good = ln > 0 and ln % bs == 0
                if good != r.ok or (not r.ok and r.err != "value"):
                    c.fail("empty / non-block-multiple data not rejected with ValueError" if not good else "valid data rejected")
                yield c
            for kl in range(0, 41):
                key, iv, data = rb(rng, kl), rb(rng, bs), rb(rng, bs * 2)
                c = Case(f"{alg}:keylen", {"fn": fn, "len": kl})
                r = c.call(f"{mod}.{fn}", *((key, iv, data) if has_iv else (key, data)))
                if (kl in ksizes) != r.ok or (not r.ok and r.err != "value"):
                    c.fail("key size acceptance wrong")
                yield c
            if has_iv:
                for il in range(0, 41):
                    key, iv, data = rb(rng, ksizes[il % 3]), rb(rng, il), rb(rng, bs * 2)
                    c = Case(f"{alg}:ivlen", {"fn": fn, "len": il})
                    r = c.call(f"{mod}.{fn}", key, iv, data)
                    if (il == bs) != r.ok or (not r.ok and r.err != "value"):
                        c.fail("IV size acceptance wrong")
                    yield c
    # key check value
    for ks in (8, 16, 24):
        for length in [None, 0, 1, 2, 3, 4, 6, 8]:
            for _ in range(reps):
                key = rb(rng, ks)
                c = Case("kcv", {"key": ks, "length": length})
                r = c.call("des.generate_kcv", key, length) if length is not None else c.call("des.generate_kcv", key, op="generate_kcv_default")
                i = c.line(f"cipher\ttdes_e\t{enc_b(key)}\t{enc_b(bytes(8))}")

                def p(rep, r=r, i=i, length=length):
                    if not r.ok:
                        return "raised " + r.err
                    full = bytes.fromhex(rep[i].split("\t")[1][2:])
                    if r.value != full[: (2 if length is None else length)]:
                        return "KCV is not the leftmost bytes of E(0)"
                c.pred("kcv = leftmost bytes of the encryption of a zero block", p)
                yield c
    for ks in (8, 16, 24):
        for order in ([8, 7, 6, 5, 4, 3, 2, 1, 0], [3, None, 2, 8, 1, None], [1, 2, 3, None, 8]):
            key = rb(rng, ks)
            c = Case("kcv:same-key-sequence", {"key": ks, "order": str(order)})
            i = c.line(f"cipher\ttdes_e\t{enc_b(key)}\t{enc_b(bytes(8))}")
            for length in order:
                r = c.call("des.generate_kcv", key, length) if length is not None else c.call("des.generate_kcv", key, op="generate_kcv_default")

                def p(rep, r=r, i=i, length=length):
                    full = bytes.fromhex(rep[i].split("\t")[1][2:])
                    if not r.ok or r.value != full[: (2 if length is None else length)]:
                        return f"KCV for length {length} is {r.value.hex() if r.ok else r.err}, expected the leftmost bytes of {full.hex()}"
                c.pred("kcv = leftmost bytes of E(0), whatever was asked before", p)
            yield c
    for kl in range(0, 41):
        c = Case("kcv:keylen", {"len": kl})
        r = c.call("des.generate_kcv", rb(rng, kl), 3)
        if (kl in (8, 16, 24)) != r.ok:
            c.fail("kcv key size acceptance wrong")
        yield c

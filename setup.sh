#!/bin/sh
# Build the Lean library (model, specification, theorems) and the driver executable, offline.
set -e
HERE="$(cd "$(dirname "$0")" && pwd)"
cd "$HERE/lean"
lake build PsecModel psecdrv

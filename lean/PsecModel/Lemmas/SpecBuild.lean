import PsecModel.Lemmas.SpecValid2
/-!
# psec's parser accepts what the specification's builder emits, with every encoding freedom (towards `spec_valid_unwraps`)
-/
namespace Psec.Tr31
open Psec Psec.Spec Psec.Spec.TR31

/-! ## `natHex` -/

theorem natHex_succ (d n : Nat) : natHex (d + 1) n = hexDigitU ((n / 16 ^ d) % 16) :: natHex d n := by
  unfold natHex
  rw [List.range_succ, List.reverse_append]
  rfl

@[simp] theorem natHex_length (d n : Nat) : (natHex d n).length = d := by simp [natHex]

theorem natHex_isHex (d n : Nat) : asciiHexchar (natHex d n) = true := by
  induction d with
  | zero => rfl
  | succ d ih =>
    rw [natHex_succ]
    simp only [asciiHexchar, List.all_cons, Bool.and_eq_true] at ih ⊢
    exact ⟨(hexVal_hexDigitU_fin ⟨(n / 16 ^ d) % 16, Nat.mod_lt _ (by decide)⟩).2.1, ih⟩

theorem parseHexNat_cons (c : Nat) (r : PyStr) : parseHexNat (c :: r) = (hexVal c).getD 0 * 16 ^ r.length + parseHexNat r := by
  have := parseHexNat_append [c] r
  simpa [parseHexNat] using this

theorem natHex_parse (d n : Nat) : parseHexNat (natHex d n) = n % 16 ^ d := by
  induction d with
  | zero => simp [natHex, parseHexNat, Nat.mod_one]
  | succ d ih =>
    rw [natHex_succ, parseHexNat_cons, ih, natHex_length, hexVal_hexDigitU _ (Nat.mod_lt _ (by decide)), Option.getD_some,
      Nat.mod_pow_succ]
    rw [Nat.mul_comm, Nat.add_comm]

theorem natHex_parse_lt (d n : Nat) (h : n < 16 ^ d) : parseHexNat (natHex d n) = n := by
  rw [natHex_parse, Nat.mod_eq_of_lt h]


theorem natHex2_eq (n : Nat) (h : n < 256) : natHex 2 n = hex2U n := by
  rw [natHex_succ, natHex_succ]
  simp only [natHex, hex2U, Nat.pow_zero, Nat.pow_one, Nat.div_one, List.range_zero, List.reverse_nil, List.map_nil]
  have : n / 16 % 16 = n / 16 := Nat.mod_eq_of_lt (by omega)
  rw [this]

/-! ## one optional block in any admissible length form -/

/-- a length form the specification may use for `data`: short when it fits, or extended with a `k`-byte length field
(1 ≤ k ≤ 255) wide enough for the total -/
def FormOK (data : PyStr) (form : Nat) : Prop :=
  (form = 0 ∧ data.length + 4 ≤ 255) ∨ (1 ≤ form ∧ form ≤ 255 ∧ data.length + 6 + 2 * form < 16 ^ (2 * form))

theorem loadLoop_enc (id data tail : PyStr) (form n i : Nat) (acc : Dict) (h : BlockOK id data) (hf : FormOK data form) :
    loadLoop (n + 1) (encodeBlock id data form ++ tail) i acc =
      if isPB id then loadLoop n tail (i + (encodeBlock id data form).length) acc
      else loadLoop n tail (i + (encodeBlock id data form).length) (dictSet acc id data) := by
  rcases hf with ⟨rfl, hs⟩ | ⟨hk1, hk2, hfit⟩
  · have hd : dumpOne id data = .ok (encodeBlock id data 0) := by
      unfold dumpOne encodeBlock
      rw [if_pos hs, if_pos rfl, natHex2_eq _ (by omega)]
    exact loadLoop_one id data _ tail n i acc h hd
  · unfold encodeBlock
    rw [if_neg (by omega)]
    conv => lhs; unfold loadLoop
    simp only [List.append_assoc]
    rw [take_append_len id _ 2 h.idlen, drop_append_len id _ 2 h.idlen]
    show (if _ then _ else _) = _
    rw [take_append_len [48, 48] _ 2 rfl, drop_append_len [48, 48] _ 2 rfl]
    have p00 : parseHexNat [48, 48] = 0 := by decide
    have h00 : asciiHexchar [48, 48] = true := by decide
    simp only [h.idlen, p00, h00, List.length_cons, List.length_nil]
    unfold parseExtLen
    rw [take_append_len (natHex 2 form) _ 2 (natHex_length 2 form), drop_append_len (natHex 2 form) _ 2 (natHex_length 2 form)]
    have pk : parseHexNat (natHex 2 form) = form := natHex_parse_lt 2 form (by omega)
    simp only [pk, natHex_isHex, natHex_length]
    have hl2 : form * 2 = 2 * form := Nat.mul_comm _ _
    rw [hl2, take_append_len (natHex (2 * form) _) _ (2 * form) (natHex_length _ _),
      drop_append_len (natHex (2 * form) _) _ (2 * form) (natHex_length _ _)]
    simp only [natHex_length, natHex_isHex, natHex_parse_lt _ _ hfit]
    have e : ((↑(data.length + 6 + 2 * form) : Int) - 6 - ((2 * form : Nat) : Int)) = (data.length : Int) := by omega
    simp only [ne_eq, not_true_eq_false, or_self, not_false_eq_true, if_false, e]
    have hneg : ¬ ((data.length : Int) < 0) := by omega
    have h4 : ¬ (2 * form = 0) := by omega
    simp only [if_true, h4, if_false, hneg, Int.toNat_natCast]
    rw [take_append_len data _ _ rfl, drop_append_len data _ _ rfl]
    simp only [not_true_eq_false, if_false, blocksSet_ok acc id data h, h.dpr]
    have : i + 2 + 2 + 2 + 2 * form + data.length = i + (id.length + (2 + (2 + (2 * form + data.length)))) := by rw [h.idlen]; omega
    simp only [List.length_append, natHex_length, List.length_cons, List.length_nil, this]

end Psec.Tr31

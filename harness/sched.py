"""Deterministic single-preemption interleaving executor (C18).

Operation A runs in its own thread with a `sys.settrace` line tracer restricted to the repository's
psec sources. At its k-th traced line A is paused, operation B runs to completion in a second thread,
then A resumes. Enumerating k over every traced line of A gives every single-preemption schedule at
source-line granularity. A replay is (operation pair, k)."""
import sys
import threading


def count_lines(op, psec_dir):
    n = [0]

    def tracer(frame, event, arg):
        if not frame.f_code.co_filename.startswith(psec_dir):
            return None
        if event == "line":
            n[0] += 1
        return tracer
    sys.settrace(tracer)
    try:
        try:
            op()
        except Exception:  # noqa: BLE001
            pass
    finally:
        sys.settrace(None)
    return n[0]


def run_preempted(op_a, op_b, k, psec_dir):
    """returns (outcome_a, outcome_b) where outcome = ('ok', value) | ('err', type name, message)"""
    res = {}

    def outcome(op):
        try:
            return ("ok", op())
        except Exception as e:  # noqa: BLE001
            return ("err", type(e).__name__, str(e))

    def run_b():
        res["b"] = outcome(op_b)

    def thread_a():
        n = [0]

        def tracer(frame, event, arg):
            if not frame.f_code.co_filename.startswith(psec_dir):
                return None
            if event == "line":
                n[0] += 1
                if n[0] == k and "b" not in res:
                    sys.settrace(None)
                    tb = threading.Thread(target=run_b)
                    tb.start()
                    tb.join()
                    sys.settrace(tracer)
            return tracer
        sys.settrace(tracer)
        try:
            res["a"] = outcome(op_a)
        finally:
            sys.settrace(None)
    ta = threading.Thread(target=thread_a)
    ta.start()
    ta.join()
    if "b" not in res:
        run_b()
    return res["a"], res["b"]

"""C16 — generators and codecs accept exactly their documented domain."""
from core import Case, call_impl, psec
from props.cardutil import digits, rb

OBLIGATIONS = ["Psec.Props.C16.encode_iso0_domain", "Psec.Props.C16.encode_iso2_domain", "Psec.Props.C16.encode_iso3_domain", "Psec.Props.C16.encode_pin_field_iso4_domain", "Psec.Props.C16.encode_pan_field_iso4_domain", "Psec.Props.C16.encipher_iso4_domain", "Psec.Props.C16.decoders_only_value_error", "Psec.Props.C16.decipher_iso4_only_value_error", "Psec.Props.C16.cvv_domain", "Psec.Props.C16.pvv_domain", "Psec.Props.C16.ibm_pin_domain", "Psec.Props.C16.ibm_offset_domain", "Psec.Props.C16.cbc_mac_des_domain", "Psec.Props.C16.cbc_mac_aes_domain", "Psec.Props.C16.retail_mac_domain", "Psec.Props.C16.tdes_wrappers_domain", "Psec.Props.C16.aes_wrappers_domain", "Psec.Props.C16.key_utils_domain"]
PLATFORM_ASSERTIONS = True   # quick tier too: these two properties lean hardest on Py.lean's account of the built-ins
TABLE_OBLIGATIONS = ["Psec.Tables.ascii_n_agree", "Psec.Tables.ascii_an_agree", "Psec.Tables.ascii_pa_agree", "Psec.Tables.ascii_h_agree", "Psec.Tables.ascii_predicates"]   # model = tables regenerated from the source (harness/tables.py)
TRUSTED_BASE = ["Lean 4.33 kernel", "which Python operations can raise and what they raise is modelled, not verified (Py.lean)", "correspondence harness and compiled driver"]
RULE = ("for every text parameter of every function: all lengths around each bound x hostile alphabet (full-width, Arabic-Indic, Devanagari, mathematical and "
        "superscript digits, signs, underscore, whitespace, NUL, newline-terminated digits, letters, lone surrogate) at first/middle/last position; windows with "
        "start,length >= 0 in and out of the PAN; byte parameters of every length 0..40; the expected verdict comes from the documented domain written "
        "independently in this file; distinct = distinct driver lines")
A = psec.mac.Algorithm
HOSTILE = ["٣", "３", "²", "१", "\U0001d7d9", "+", "-", "_", " ", "\t", "\n", "\x00", "a", "F", "g", "é", "\ud800", ".", "/", ":", "①", "{", "}", "%",
           # non-ASCII characters that a case mapping or a compatibility normalisation turns into ASCII hex digits / letters - one or
           # SEVERAL of them (the ligature ff upper-cases to "FF", circled ten normalises to "10", the square "cd" to "cd"): what a
           # validator admits when it runs after .upper() / .casefold() / normalize() instead of on the caller's string
           "\ufb00", "\u00df", "\u2131", "\u2102", "\u2469", "\u33c5", "\u212a", "\u0131"]


def asciidigits(s):
    return all(ch in "0123456789" for ch in s)


class T:  # text parameter: decimal digits, length in [lo, hi]
    def __init__(self, lo, hi, alphabet="0123456789"):
        self.lo, self.hi, self.alphabet = lo, hi, alphabet

    def valid(self, rng):
        n = rng.randrange(self.lo, min(self.hi, self.lo + 12) + 1)
        return "".join(rng.choice(self.alphabet) for _ in range(n))

    def ok(self, v):
        return self.lo <= len(v) <= self.hi and all(ch in self.alphabet for ch in v)

    def variants(self, rng):
        for n in sorted({0, 1, self.lo - 1, self.lo, self.lo + 1, self.hi - 1, self.hi, self.hi + 1, self.hi + 5} - {-1}):
            if 0 <= n <= 64:
                yield "".join(rng.choice(self.alphabet) for _ in range(n))
        # far outside: lengths at which a one-byte count, a two-byte count or a buffer would overflow
        for n in (100, 208, 224, 240, 255, 256, 257, 300, 1000, 4300, 4301, 5000, 70000):
            yield "".join(rng.choice(self.alphabet) for _ in range(n))
        base = self.valid(rng)
        for h in HOSTILE:
            if h in self.alphabet:
                continue
            for pos in {0, len(base) // 2, len(base) - 1}:
                if base:
                    yield base[:pos] + h + base[pos + 1:]
            yield base + h
            if len(base) > self.lo:
                yield base[:-1] + h


class B:  # byte parameter with admissible sizes
    def __init__(self, sizes):
        self.sizes = sizes

    def valid(self, rng):
        return rb(rng, rng.choice(self.sizes))

    def ok(self, v):
        return len(v) in self.sizes

    def variants(self, rng):
        for n in list(range(0, 41)) + [48, 64, 255, 256, 257, 1000, 4096, 70000]:
            yield rb(rng, n)


class Data(B):  # message bytes: every length is in the domain (the sizes only steer the generator)
    def ok(self, v):
        return True


class Mult(B):  # byte parameter whose length must be a positive multiple of the cipher block size
    def __init__(self, bs):
        self.bs = bs
        self.sizes = tuple(bs * k for k in range(1, 6))

    def ok(self, v):
        return len(v) > 0 and len(v) % self.bs == 0


class Fixed:
    def __init__(self, *vals):
        self.vals = vals

    def valid(self, rng):
        return rng.choice(self.vals)

    def ok(self, v):
        return True

    def variants(self, rng):
        return iter(())


class Sel:  # integer selector with an explicit documented set
    def __init__(self, good, bad):
        self.good, self.bad = tuple(good), tuple(bad)

    def valid(self, rng):
        return rng.choice(self.good)

    def ok(self, v):
        return v in self.good

    def variants(self, rng):
        return iter(self.good + self.bad)


PADDING = Sel((1, 2, 3), (0, -1, -2, -3, -4, 4, 5, 16, 255, 256, 2 ** 31, -2 ** 31))
VARIANT = Sel(tuple(range(0, 32)), (-1, -2, -31, -32, 32, 33, 64, 255, 256))
PIN = T(4, 12)
PAN13 = T(13, 10 ** 6)
HEXPAD = T(1, 1, "0123456789abcdefABCDEF")

# name -> (params, draws_entropy, decoder?)  decoder: in-domain inputs may still be rejected (block content), only the class matters
FUNCS = {
    "pinblock.encode_pinblock_iso_0": ([PIN, PAN13], False, False),
    "pinblock.encode_pinblock_iso_2": ([PIN], False, False),
    "pinblock.encode_pinblock_iso_3": ([PIN, PAN13], True, False),
    "pinblock.encode_pin_field_iso_4": ([PIN], True, False),
    "pinblock.encode_pan_field_iso_4": ([T(1, 19)], False, False),
    "pinblock.encipher_pinblock_iso_4": ([B((16, 24, 32)), PIN, T(1, 19)], True, False),
    "pinblock.decode_pinblock_iso_0": ([B((8,)), PAN13], False, True),
    "pinblock.decode_pinblock_iso_2": ([B((8,))], False, True),
    "pinblock.decode_pinblock_iso_3": ([B((8,)), PAN13], False, True),
    "pinblock.decode_pin_field_iso_4": ([B((16,))], False, True),
    "pinblock.decipher_pinblock_iso_4": ([B((16, 24, 32)), B((16, 32, 48)), T(1, 19)], False, True),
    "cvv.generate_cvv": ([B((16,)), T(0, 19), T(4, 4), T(3, 3)], False, False),
    "pin.generate_visa_pvv": ([B((8, 16, 24)), T(1, 1), T(4, 4), T(12, 10 ** 6)], False, False),
    "mac.generate_cbc_mac": ([B((8, 16, 24)), Data(tuple(range(0, 41))), PADDING, Fixed(None, 4, 8), Fixed(None, A.DES)], False, False),
    "mac.generate_cbc_mac#aes": ([B((16, 24, 32)), Data(tuple(range(0, 41))), PADDING, Fixed(None, 4, 16), Fixed(A.AES)], False, False),
    "mac.generate_retail_mac": ([B((8, 16, 24)), B((8, 16, 24)), Data(tuple(range(0, 41))), PADDING, Fixed(None, 4, 8)], False, False),
    "des.encrypt_tdes_ecb": ([B((8, 16, 24)), Mult(8)], False, False),
    "des.decrypt_tdes_ecb": ([B((8, 16, 24)), Mult(8)], False, False),
    "des.encrypt_tdes_cbc": ([B((8, 16, 24)), B((8,)), Mult(8)], False, False),
    "des.decrypt_tdes_cbc": ([B((8, 16, 24)), B((8,)), Mult(8)], False, False),
    "aes.encrypt_aes_ecb": ([B((16, 24, 32)), Mult(16)], False, False),
    "aes.decrypt_aes_ecb": ([B((16, 24, 32)), Mult(16)], False, False),
    "aes.encrypt_aes_cbc": ([B((16, 24, 32)), B((16,)), Mult(16)], False, False),
    "aes.decrypt_aes_cbc": ([B((16, 24, 32)), B((16,)), Mult(16)], False, False),
    "des.apply_key_variant": ([B((8, 16, 24)), VARIANT], False, False),
    "des.generate_kcv": ([B((8, 16, 24)), Fixed(2, 3)], False, False),
}


def verdict_case(c, fn, params, args, entropy, decoder):
    r = c.call(fn.split("#")[0], *args, with_entropy=entropy)
    dom = all(p.ok(a) for p, a in zip(params, args))
    c.desc["in_domain"] = dom
    if not r.ok and r.err != "value":
        c.fail(f"raised {r.err}, not ValueError")
    elif dom and not r.ok and not decoder:
        c.fail("documented input rejected")
    elif not dom and r.ok:
        c.fail(f"input outside the documented domain accepted (returned {r.value!r})")
    return r


def generate(rng, tier, seed):
    reps = 1 if tier == "quick" else 3
    for fn, (params, entropy, decoder) in FUNCS.items():
        for _ in range(reps):
            for k, p in enumerate(params):
                for v in p.variants(rng):
                    args = [q.valid(rng) for q in params]
                    args[k] = v
                    c = Case(fn.split(".")[-1] + f":param{k}", {})
                    verdict_case(c, fn, params, args, entropy, decoder)
                    yield c
            for _ in range(5):
                c = Case(fn.split(".")[-1] + ":valid", {})
                verdict_case(c, fn, params, [q.valid(rng) for q in params], entropy, decoder)
                yield c
    # rejection cases crossed with very large data: an invalid selector or key size must be refused whatever the size of the message
    big = [1 << 20, (1 << 20) + 8, 3 << 19]
    for n in big:
        data = bytes(n)
        for fn, args in (("mac.generate_cbc_mac", (rb(rng, 16), data, 4, None, A.DES)), ("mac.generate_cbc_mac", (rb(rng, 16), data, 0, None, A.AES)),
                         ("mac.generate_cbc_mac", (rb(rng, 15), data, 1, None, A.DES)), ("mac.generate_retail_mac", (rb(rng, 16), rb(rng, 16), data, 7, None)),
                         ("mac.generate_retail_mac", (rb(rng, 16), rb(rng, 9), data, 1, None)), ("des.encrypt_tdes_ecb", (rb(rng, 10), data)),
                         ("aes.encrypt_aes_cbc", (rb(rng, 16), rb(rng, 15), data)), ("tools.xor", (data, rb(rng, 8)))):
            c = Case(fn.split(".")[-1] + ":large-data-with-invalid-argument", {"len": n})
            c.key = (fn, n, len(args[0]))
            r = call_impl(fn, args)      # implementation only: the outcome class is all that is judged
            if fn == "tools.xor":
                if not r.ok or len(r.value) != n:
                    c.fail("xor of a large buffer with a short mask is not as long as the data")
            elif r.ok or r.err != "value":
                c.fail(f"an invalid argument together with {n} bytes of data was not rejected with ValueError: {'returned' if r.ok else r.err}")
            yield c
    # two text parameters out of range at once with lengths that compensate each other (one longer by d, the other shorter by d),
    # and two neighbouring parameters exchanged: a guard on the combined text sees nothing wrong
    for fn, (params, entropy, decoder) in FUNCS.items():
        tix = [k for k, p in enumerate(params) if isinstance(p, T)]
        for a in tix:
            for b in tix:
                if a == b:
                    continue
                for d in (1, 2, 3):
                    args = [q.valid(rng) for q in params]
                    if len(args[b]) - d < 0:
                        continue
                    args[a] = args[a] + "".join(rng.choice(params[a].alphabet) for _ in range(d))
                    args[b] = args[b][: len(args[b]) - d]
                    c = Case(fn.split(".")[-1] + ":compensating-lengths", {"longer": a, "shorter": b, "by": d})
                    verdict_case(c, fn, params, args, entropy, decoder)
                    yield c
                if b == a + 1:
                    args = [q.valid(rng) for q in params]
                    args[a], args[b] = args[b], args[a]
                    c = Case(fn.split(".")[-1] + ":exchanged-parameters", {"a": a, "b": b})
                    verdict_case(c, fn, params, args, entropy, decoder)
                    yield c
    # IBM 3624: text parameters and windows
    ibm = [B((8, 16, 24)), T(16, 16), T(4, 16), T(0, 19)]
    for fn in ("pin.generate_ibm3624_pin", "pin.generate_ibm3624_offset"):
        for _ in range(reps):
            for k, p in enumerate(ibm + [HEXPAD]):
                for v in p.variants(rng):
                    args = [q.valid(rng) for q in ibm]
                    pad = HEXPAD.valid(rng)
                    if k < 4:
                        args[k] = v
                    else:
                        pad = v
                    plen = len(args[3]) if isinstance(args[3], str) else 0
                    start = rng.randrange(0, plen + 1)
                    ln = rng.randrange(0, plen - start + 1)
                    full = args + [start, ln, pad]
                    c = Case(fn.split(".")[-1] + f":param{k}", {})
                    r = c.call(fn, *full)
                    dom = all(q.ok(a) for q, a in zip(ibm, args)) and HEXPAD.ok(pad)
                    if not r.ok and r.err != "value":
                        c.fail(f"raised {r.err}, not ValueError")
                    elif dom and not r.ok:
                        c.fail("documented input rejected")
                    elif not dom and r.ok:
                        c.fail(f"input outside the documented domain accepted (returned {r.value!r})")
                    yield c
        # pads made of several admissible characters (runs of the hex alphabet, doubled characters, the alphabet itself): one character
        # is the documented domain
        for pad in ("12", "AB", "9A", "Fa", "ef", "ABC", "0123", "FF", "00", "0123456789", "0123456789abcdefABCDEF", "F ", " F", "0x", "Ff"):
            args = [q.valid(rng) for q in ibm]
            plen = len(args[3])
            start = rng.randrange(0, plen + 1)
            c = Case(fn.split(".")[-1] + ":multi-character-pad", {"pad": pad})
            r = c.call(fn, *(args + [start, rng.randrange(0, plen - start + 1), pad]))
            if r.ok or r.err != "value":
                c.fail(f"pad {pad!r} (not one hex character) was not rejected with ValueError: {'returned ' + repr(r.value) if r.ok else r.err}")
            yield c
        for plen in (0, 1, 12, 16, 19):
            pan = digits(rng, plen)
            for start in range(0, plen + 4):
                for ln in range(0, plen + 4):
                    if tier == "quick" and plen > 1 and (start + ln * 3) % 4 and not (start + ln in (plen, plen + 1) or ln == 0):
                        continue
                    c = Case(fn.split(".")[-1] + ":window", {"pan_len": plen, "start": start, "len": ln})
                    r = c.call(fn, rb(rng, 16), digits(rng, 16), digits(rng, 4), pan, start, ln, "F")
                    inside = start + ln <= plen
                    c.desc["in_domain"] = inside
                    if not r.ok and r.err != "value":
                        c.fail(f"raised {r.err}, not ValueError")
                    elif inside and not r.ok:
                        c.fail("window inside the PAN rejected")
                    elif not inside and r.ok:
                        c.fail(f"window outside the PAN accepted (start {start}, length {ln}, PAN of {plen} digits)")
                    yield c
    # an authentic block followed (or preceded) by surplus blocks: the wrong size is rejected although its first / last part is valid
    for _ in range(6 * reps):
        pin, pan, key = digits(rng, rng.randrange(4, 13)), digits(rng, 16), rb(rng, rng.choice((16, 24, 32)))
        e0 = psec.pinblock.encode_pinblock_iso_0(pin, pan)
        e2 = psec.pinblock.encode_pinblock_iso_2(pin)
        e3 = psec.pinblock.encode_pinblock_iso_3(pin, pan)
        f4 = psec.pinblock.encode_pin_field_iso_4(pin)
        e4 = psec.pinblock.encipher_pinblock_iso_4(key, pin, pan)
        for fn, blk, rest in (("pinblock.decode_pinblock_iso_0", e0, (pan,)), ("pinblock.decode_pinblock_iso_2", e2, ()),
                              ("pinblock.decode_pinblock_iso_3", e3, (pan,)), ("pinblock.decode_pin_field_iso_4", f4, ()),
                              ("pinblock.decipher_pinblock_iso_4", e4, (pan,))):
            for bad in (blk + blk, blk + bytes(len(blk)), blk + rb(rng, len(blk)), blk * 3, bytes(len(blk)) + blk, blk + blk[:1], blk[:-1],
                        blk[:len(blk) // 2], blk + b"\xaa" * len(blk), blk + b"\xff" * len(blk), blk + b"\xaa" * (len(blk) // 2)):
                c = Case(fn.split(".")[-1] + ":authentic-plus-surplus", {"len": len(bad)})
                args = ((key, bad) + rest) if fn.endswith("decipher_pinblock_iso_4") else ((bad,) + rest)
                r = c.call(fn, *args)
                if r.ok or r.err != "value":
                    c.fail(f"a block of {len(bad)} bytes (an authentic block plus surplus) was not rejected with ValueError: {'returned ' + repr(r.value) if r.ok else r.err}")
                yield c
    # blocks of the right size that are nearly well-formed: decoded under another PAN, one PIN digit replaced by A-F, one fill nibble
    # replaced by a digit (format 3), by 0-E (formats 0 / 2), the control or length nibble off by one - rejected with ValueError and
    # nothing else, in every interpreter mode (each rejection has its own raise site and message)
    for _ in range(4 * reps):
        pin, pan = digits(rng, rng.randrange(4, 12)), digits(rng, 16)
        pan2 = pan[:3] + "".join(str(9 - int(ch)) for ch in pan[3:15]) + pan[15:]
        blocks3 = {"pinblock.decode_pinblock_iso_0": (psec.pinblock.encode_pinblock_iso_0(pin, pan), (pan,)),
                   "pinblock.decode_pinblock_iso_2": (psec.pinblock.encode_pinblock_iso_2(pin), ()),
                   "pinblock.decode_pinblock_iso_3": (psec.pinblock.encode_pinblock_iso_3(pin, pan), (pan,)),
                   "pinblock.decode_pin_field_iso_4": (psec.pinblock.encode_pin_field_iso_4(pin), ())}
        for fn, (blk, rest) in blocks3.items():
            muts = []
            hexs = blk.hex()
            for pos, repl in ((2 + len(pin) - 1, "c"), (2, "a"), (2 + len(pin), "5"), (2 + len(pin), "0"), (15, "9"), (0, "f"), (1, "3"), (1, "d")):
                if rest:
                    # formats 0 / 3: the nibble is XORed with the PAN block; flip it so that the *clear* nibble becomes `repl`
                    clear = bytes(x ^ y for x, y in zip(blk, bytes.fromhex("0000" + pan[-13:-1])))
                    ch = clear.hex()
                    ch2 = ch[:pos] + repl + ch[pos + 1:]
                    muts.append(bytes(x ^ y for x, y in zip(bytes.fromhex(ch2), bytes.fromhex("0000" + pan[-13:-1]))))
                else:
                    muts.append(bytes.fromhex(hexs[:pos] + repl + hexs[pos + 1:]))
            for m_ in muts:
                c = Case(fn.split(".")[-1] + ":nearly-well-formed", {})
                r = c.call(fn, m_, *rest)
                if not r.ok and r.err != "value":
                    c.fail(f"a nearly well-formed block escaped as {r.err}")
                yield c
            if rest:
                c = Case(fn.split(".")[-1] + ":other-pan", {})
                r = c.call(fn, blk, pan2)
                if not r.ok and r.err != "value":
                    c.fail(f"a block decoded under another PAN escaped as {r.err}")
                yield c
    # character-class helpers over the whole low range and a sample of high code points
    pts = list(range(0, 0x300)) + [0x660, 0x663, 0x966, 0xFF10, 0xFF21, 0x1D7D9, 0xD800, 0xDFFF, 0x10FFFF, 0x2460, 0x212A, 0x17F, 0x130, 0x131]
    for cp in pts:
        c = Case("ascii-class-helpers", {"cp": cp})
        c.nontrivial = cp < 128
        for h in ("ascii_numeric", "ascii_alphanumeric", "ascii_printable", "ascii_hexchar"):
            c.call("tools." + h, chr(cp))
            c.call("tools." + h, "7" + chr(cp) + "a")
        yield c

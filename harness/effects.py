"""Effect extractor for C18: parses /repo/psec/*.py (Python `ast`) and computes, per function,
the writes that could be visible to another call or to the caller:

* shared writes  - to module- or class-level objects (global/nonlocal rebinding, attribute / subscript
                   stores, in-place operators, mutating method calls on them);
* argument writes - through parameters (other than `self`) or their aliases;
* self writes     - to `self` or objects reached from it (including calls of self-writing methods on
                   `self.<attr>`), closed over the package's call graph;
* unknown         - dynamic escape hatches the analysis cannot follow (setattr, globals(), exec, __dict__,
                   unknown decorators, ...), which fail the obligation.

The result is emitted as plain data in lean/PsecModel/Generated/Effects.lean and re-checked by the
theorem `Psec.Props.C18.effects_ok` (`decide`) on every run.

Sound only for the constructs it recognises: call results are assumed to be fresh objects; names are
classified flow-sensitively in statement order, branches are merged pessimistically.
"""
import ast
import os
import sys

MUTATORS = {"append", "extend", "insert", "pop", "remove", "clear", "update", "sort", "reverse", "add", "discard",
            "setdefault", "popitem", "__setitem__", "__delitem__", "__iadd__", "difference_update",
            "intersection_update", "symmetric_difference_update", "appendleft", "extendleft", "rotate", "write",
            "writelines", "truncate", "seek", "send", "close", "__setattr__", "__delattr__"}
DYNAMIC = {"setattr", "delattr", "globals", "locals", "vars", "exec", "eval", "compile", "__import__"}
# decorators known to add no shared state and to leave the decorated body as it is written (anything else - caches, registries,
# wrappers the analysis cannot see into - fails the obligation)
OK_DECORATORS = {"property", "staticmethod", "classmethod", "abstractmethod", "overload", "final", "override"}
# memoisation by the standard library, keyed by *all* arguments and thread-safe: invisible for a function that is itself clean,
# provided nobody writes through what it returns - the result of a call to such a function is therefore a *shared* object
# (category "global"): `.update()` on a cached cipher context, a slice store into a cached bytearray ... are shared writes.
# Accepted on module-level functions and static methods only (a method's cache would be keyed by the identity of `self`,
# not by the state it reads).
CACHE_DECORATORS = {"lru_cache", "cache"}
IMMUTABLE_ANN = {"int", "str", "bytes", "bool", "float", "Optional[int]", "Optional[str]", "Optional[bytes]", "Optional[bool]"}
RANK = {"fresh": 0, "self": 1, "param": 2, "global": 3, "unknown": 4}


def worst(a, b):
    return a if RANK[a] >= RANK[b] else b


class FnInfo:
    def __init__(self, qual, module, cls, node):
        self.qual, self.module, self.cls, self.node = qual, module, cls, node
        self.shared, self.arg, self.selfw, self.unknown, self.calls = [], [], [], [], []
        self.self_calls = []   # (method name, receiver kind) for method calls on self / self.attr / fresh / param receivers
        self.written_params = set()   # names of the parameters written through
        self.method_calls = []        # (method name, [(keyword or None, category of the argument)]) for calls `<receiver>.name(...)`


def base_name(expr):
    """innermost Name of an attribute / subscript chain, and the chain depth"""
    depth = 0
    while isinstance(expr, (ast.Attribute, ast.Subscript)):
        expr = expr.value
        depth += 1
    if isinstance(expr, ast.Name):
        return expr.id, depth
    if isinstance(expr, ast.Call):
        return None, depth
    return None, depth


class Analyzer:
    def __init__(self, pkgdir):
        self.pkgdir = pkgdir
        self.fns = {}
        self.module_globals = {}      # module -> set of module-level names
        self.class_attrs = {}         # (module, class) -> set of class-level names
        self.mutable_globals = []     # descriptions
        self.module_writes = []       # import-time writes to module-level mutable objects
        self.classes = {}             # class name -> module
        self.imports = {}             # module -> psec modules it imports
        self.cached = set()           # names of functions memoised with functools.lru_cache / functools.cache

    def load(self):
        for fn in sorted(os.listdir(self.pkgdir)):
            if not fn.endswith(".py"):
                continue
            mod = fn[:-3]
            tree = ast.parse(open(os.path.join(self.pkgdir, fn)).read(), filename=fn)
            self.scan_module(mod, tree)
            self.scan_imports(mod, tree, {x[:-3] for x in os.listdir(self.pkgdir) if x.endswith(".py")})
        self.analyzed = set()
        self.decorator_names = set()
        for f in self.fns.values():
            for d in f.node.decorator_list:
                nm = self.decorator_name(d)
                if nm:
                    self.decorator_names.add(nm)
        for f in list(self.fns.values()):
            if f.qual not in self.analyzed:
                self.analyze_fn(f)
        self.close_arg_writes()
        self.close_self_writes()

    # -- module level -----------------------------------------------------
    def scan_imports(self, mod, tree, names):
        """psec modules imported by `mod` (any form: `from psec import tools as _tools`, `from . import des`, `import psec.mac`,
        `from psec.tools import xor`, also inside functions)"""
        out = set()
        for n in ast.walk(tree):
            if isinstance(n, ast.ImportFrom):
                base = (n.module or "").split(".")
                if n.level or base[0] == "psec":
                    tail = [x for x in base if x and x != "psec"]
                    if tail and tail[0] in names:
                        out.add(tail[0])
                    for a in n.names:
                        if a.name in names:
                            out.add(a.name)
            elif isinstance(n, ast.Import):
                for a in n.names:
                    parts = a.name.split(".")
                    if parts[0] == "psec" and len(parts) > 1 and parts[1] in names:
                        out.add(parts[1])
        out.discard(mod)
        self.imports[mod] = sorted(out)

    @staticmethod
    def is_buffer_ctor(v):
        if isinstance(v, ast.Call):
            f = v.func
            name = f.id if isinstance(f, ast.Name) else (f.attr if isinstance(f, ast.Attribute) else "")
            if name in ("bytearray", "memoryview", "array", "create_string_buffer", "mmap", "BytesIO", "StringIO", "Lock", "RLock", "local", "Semaphore", "Condition", "Event"):
                return True
        return False

    def scan_module(self, mod, tree):
        names = set()
        for node in tree.body:
            if isinstance(node, (ast.Assign, ast.AnnAssign)):
                targets = node.targets if isinstance(node, ast.Assign) else [node.target]
                for t in targets:
                    if isinstance(t, ast.Name):
                        names.add(t.id)
                        if self.is_mutable_ctor(node.value):
                            self.mutable_globals.append(f"{mod}.{t.id}")
                        if self.is_buffer_ctor(node.value):
                            # a module-level byte buffer has one use: to be written into by the functions of the module (update_into,
                            # readinto, slice assignment through a view ...) - shared state whatever the call that fills it looks like
                            self.module_writes.append(f"{mod}:module-level work buffer {t.id} = {ast.unparse(node.value)[:40]}")
                    elif isinstance(t, (ast.Subscript, ast.Attribute)):
                        b, _ = base_name(t)
                        self.module_writes.append(f"{mod}:{ast.unparse(t)}")
            elif isinstance(node, (ast.AugAssign, ast.Delete)):
                self.module_writes.append(f"{mod}:{ast.unparse(node)[:60]}")
            elif isinstance(node, ast.Expr) and isinstance(node.value, ast.Call):
                f = node.value.func
                if isinstance(f, ast.Attribute) and f.attr in MUTATORS:
                    self.module_writes.append(f"{mod}:{ast.unparse(node.value)[:60]}")
            elif isinstance(node, (ast.Import, ast.ImportFrom)):
                for a in node.names:
                    names.add((a.asname or a.name).split(".")[0])
            elif isinstance(node, ast.FunctionDef):
                names.add(node.name)
                self.add_fn(mod, None, node)
            elif isinstance(node, ast.ClassDef):
                names.add(node.name)
                self.classes[node.name] = mod
                cattrs = set()
                for sub in node.body:
                    if isinstance(sub, (ast.Assign, ast.AnnAssign)):
                        targets = sub.targets if isinstance(sub, ast.Assign) else [sub.target]
                        for t in targets:
                            if isinstance(t, ast.Name):
                                cattrs.add(t.id)
                                if sub.value is not None and self.is_mutable_ctor(sub.value):
                                    self.mutable_globals.append(f"{mod}.{node.name}.{t.id}")
                                if sub.value is not None and self.is_buffer_ctor(sub.value):
                                    self.module_writes.append(f"{mod}:class-level work buffer {node.name}.{t.id} = {ast.unparse(sub.value)[:40]}")
                    elif isinstance(sub, ast.FunctionDef):
                        self.add_fn(mod, node.name, sub)
                self.class_attrs[(mod, node.name)] = cattrs
        self.module_globals[mod] = names

    @staticmethod
    def is_mutable_ctor(v):
        if isinstance(v, (ast.List, ast.Dict, ast.Set, ast.ListComp, ast.DictComp, ast.SetComp)):
            return True
        if isinstance(v, ast.Call) and isinstance(v.func, ast.Name) and v.func.id in {"list", "dict", "set", "bytearray", "defaultdict", "OrderedDict", "deque"}:
            return True
        return False

    @staticmethod
    def decorator_name(d):
        if isinstance(d, ast.Call):     # @lru_cache(maxsize=32)
            d = d.func
        return d.id if isinstance(d, ast.Name) else (d.attr if isinstance(d, ast.Attribute) else None)

    def add_fn(self, mod, cls, node, prefix=""):
        qual = ".".join(x for x in (mod, cls, prefix + node.name) if x)
        if any(self.decorator_name(d) in CACHE_DECORATORS for d in node.decorator_list):
            self.cached.add(node.name)
        # property setters share the name of the getter: disambiguate
        for d in node.decorator_list:
            if isinstance(d, ast.Attribute) and d.attr in ("setter", "deleter"):
                qual += "." + d.attr
        self.fns[qual] = FnInfo(qual, mod, cls, node)

    # -- per function -------------------------------------------------------
    def analyze_fn(self, f, captured=None):
        self.analyzed.add(f.qual)
        node = f.node
        # a nested function sees the names of the enclosing function; what they denote was decided there (a parameter of the
        # enclosing function stays a parameter). Inside a function the package uses as a decorator the closure outlives the
        # call, so everything it captured is shared state ("global").
        env = dict(captured or {})
        args = node.args
        allargs = [a.arg for a in args.posonlyargs + args.args + args.kwonlyargs]
        if args.vararg:
            allargs.append(args.vararg.arg)
        if args.kwarg:
            allargs.append(args.kwarg.arg)
        argnodes = args.posonlyargs + args.args + args.kwonlyargs
        immut = set()
        for a in argnodes:
            if a.annotation is not None and ast.unparse(a.annotation).replace("_typing.", "").replace("typing.", "") in IMMUTABLE_ANN:
                immut.add(a.arg)
        f.immutable_params = immut
        for i, a in enumerate(allargs):
            env[a] = "self" if (f.cls and i == 0 and a in ("self", "cls")) else "param"
        names = [self.decorator_name(d) for d in node.decorator_list]
        for d, name in zip(node.decorator_list, names):
            if name in CACHE_DECORATORS and (f.cls is None or "staticmethod" in names) and ".<locals>." not in f.qual:
                continue
            if name is not None and f"{f.module}.{name}" in self.fns and self.fns[f"{f.module}.{name}"].cls is None:
                # a decorator written in the same module: its body and the closures it returns are functions of the module and are
                # analysed like any other (see `analyze_fn(captured=...)`: what such a closure captured is shared state)
                continue
            if isinstance(d, ast.Call) or (name not in OK_DECORATORS and name not in ("setter", "deleter", "getter")):
                f.unknown.append(f"decorator {ast.unparse(d)}")
        self.globals_declared = set()
        self.block(f, node.body, env)

    def classify(self, f, expr, env):
        """category of the object an expression evaluates to"""
        if isinstance(expr, ast.Name):
            if expr.id in env:
                return env[expr.id]
            if expr.id in self.module_globals.get(f.module, ()):
                return "global"
            return "fresh"  # builtins
        if isinstance(expr, ast.Attribute):
            b = self.classify(f, expr.value, env)
            if b == "self" and f.cls and expr.attr in self.class_attrs.get((f.module, f.cls), ()) and not self.instance_assigns(f, expr.attr):
                return "global"      # class-level object reached through self
            return b
        if isinstance(expr, ast.Subscript):
            # slicing bytes/str gives a new object, but indexing a container may alias: stay with the base category
            b = self.classify(f, expr.value, env)
            return b if b != "fresh" else "fresh"
        if isinstance(expr, ast.IfExp):
            return worst(self.classify(f, expr.body, env), self.classify(f, expr.orelse, env))
        if isinstance(expr, ast.Call):
            fn = expr.func
            nm = fn.id if isinstance(fn, ast.Name) else (fn.attr if isinstance(fn, ast.Attribute) else None)
            return "global" if nm in self.cached else "fresh"
        if isinstance(expr, (ast.BinOp, ast.Constant, ast.JoinedStr, ast.List, ast.Dict, ast.Set, ast.Tuple,
                             ast.ListComp, ast.DictComp, ast.SetComp, ast.GeneratorExp, ast.Compare, ast.BoolOp, ast.UnaryOp)):
            return "fresh"
        return "unknown"

    def instance_assigns(self, f, attr):
        """does any method of the class assign self.<attr> (then it is an instance attribute)"""
        for g in self.fns.values():
            if g.cls == f.cls and g.module == f.module:
                for n in ast.walk(g.node):
                    if isinstance(n, (ast.Assign, ast.AnnAssign, ast.AugAssign)):
                        targets = n.targets if isinstance(n, ast.Assign) else [n.target]
                        for t in targets:
                            if isinstance(t, ast.Attribute) and isinstance(t.value, ast.Name) and t.value.id == "self" and t.attr == attr:
                                return True
        return False

    def record_write(self, f, target_expr, env, what):
        """a write into the object denoted by target_expr (its container for attribute/subscript stores)"""
        cat = self.classify(f, target_expr, env)
        desc = f"{what} {ast.unparse(target_expr)[:50]}"
        if cat == "global":
            f.shared.append(desc)
        elif cat == "param":
            f.arg.append(desc)
            nm, _ = base_name(target_expr)
            if nm:
                f.written_params.add(nm)
        elif cat == "self":
            f.selfw.append(desc)
        elif cat == "unknown":
            f.unknown.append(desc)

    def bind(self, f, target, value_cat, env):
        if isinstance(target, ast.Name):
            if target.id in self.globals_declared:
                f.shared.append(f"global rebinding {target.id}")
            else:
                env[target.id] = value_cat
        elif isinstance(target, (ast.Tuple, ast.List)):
            for t in target.elts:
                self.bind(f, t, value_cat, env)
        elif isinstance(target, ast.Starred):
            self.bind(f, target.value, value_cat, env)
        elif isinstance(target, (ast.Attribute, ast.Subscript)):
            self.record_write(f, target.value, env, "store into")

    def exprs(self, f, node, env):
        """walk an expression / statement for calls"""
        for n in ast.walk(node):
            if isinstance(n, ast.Call):
                fn = n.func
                if isinstance(fn, ast.Name):
                    if fn.id in ("setattr", "delattr") and n.args and not any(isinstance(a, ast.Starred) for a in n.args):
                        # setattr(obj, name, value) is a store into obj, whatever the attribute: charged to obj's category
                        self.record_write(f, n.args[0], env, f"{fn.id}() on")
                    elif fn.id in DYNAMIC:
                        f.unknown.append(f"dynamic {fn.id}()")
                    f.calls.append(("name", fn.id, [(None, self.classify(f, a, env)) for a in n.args] + [(k.arg, self.classify(f, k.value, env)) for k in n.keywords]))
                elif isinstance(fn, ast.Attribute):
                    if fn.attr in MUTATORS:
                        self.record_write(f, fn.value, env, f"mutating call .{fn.attr}() on")
                    recv = self.classify(f, fn.value, env)
                    f.calls.append(("attr", fn.attr, (recv, ast.unparse(fn.value)[:40])))
                    f.method_calls.append((fn.attr, [(None, self.classify(f, a, env)) for a in n.args] + [(k.arg, self.classify(f, k.value, env)) for k in n.keywords]))
            elif isinstance(n, ast.Attribute) and n.attr in ("__dict__", "__globals__", "__class__"):
                f.unknown.append(f"dynamic attribute {n.attr}")
            elif isinstance(n, (ast.NamedExpr,)):
                self.bind(f, n.target, self.classify(f, n.value, env), env)
            elif isinstance(n, (ast.Lambda,)):
                pass

    def block(self, f, stmts, env):
        for s in stmts:
            self.stmt(f, s, env)

    def stmt(self, f, s, env):
        if isinstance(s, (ast.Global, ast.Nonlocal)):
            self.globals_declared.update(s.names)
        elif isinstance(s, ast.Assign):
            self.exprs(f, s.value, env)
            cat = self.classify(f, s.value, env)
            for t in s.targets:
                self.exprs(f, t, env) if isinstance(t, (ast.Attribute, ast.Subscript)) else None
                self.bind(f, t, cat, env)
        elif isinstance(s, ast.AnnAssign):
            if s.value is not None:
                self.exprs(f, s.value, env)
                self.bind(f, s.target, self.classify(f, s.value, env), env)
        elif isinstance(s, ast.AugAssign):
            self.exprs(f, s.value, env)
            t = s.target
            if isinstance(t, ast.Name):
                if t.id in self.globals_declared:
                    f.shared.append(f"global in-place {t.id}")
                else:
                    cat = env.get(t.id, "global" if t.id in self.module_globals.get(f.module, ()) else "fresh")
                    if cat == "param" and t.id in getattr(f, "immutable_params", ()):
                        env[t.id] = "fresh"      # int / str / bytes parameter: `x op= y` rebinds a local
                    elif cat in ("param", "global", "self", "unknown"):
                        # `x += y` mutates a mutable object in place
                        self.record_write(f, t, env, "in-place operator on")
            else:
                self.record_write(f, t.value, env, "in-place store into")
        elif isinstance(s, ast.Delete):
            for t in s.targets:
                if isinstance(t, (ast.Attribute, ast.Subscript)):
                    self.record_write(f, t.value, env, "delete from")
                elif isinstance(t, ast.Name) and t.id in self.globals_declared:
                    f.shared.append(f"global delete {t.id}")
        elif isinstance(s, (ast.For, ast.AsyncFor)):
            self.exprs(f, s.iter, env)
            itcat = self.classify(f, s.iter, env)
            self.bind(f, s.target, itcat if itcat != "fresh" else "fresh", env)
            e1 = dict(env)
            self.block(f, s.body, e1)
            self.block(f, s.body, e1)     # second pass: bindings made late in the body reach its start
            self.block(f, s.orelse, e1)
            self.merge(env, e1)
        elif isinstance(s, ast.While):
            self.exprs(f, s.test, env)
            e1 = dict(env)
            self.block(f, s.body, e1)
            self.block(f, s.body, e1)
            self.block(f, s.orelse, e1)
            self.merge(env, e1)
        elif isinstance(s, ast.If):
            self.exprs(f, s.test, env)
            e1, e2 = dict(env), dict(env)
            self.block(f, s.body, e1)
            self.block(f, s.orelse, e2)
            self.merge(env, e1)
            self.merge(env, e2)
        elif isinstance(s, (ast.With, ast.AsyncWith)):
            for it in s.items:
                self.exprs(f, it.context_expr, env)
                if it.optional_vars is not None:
                    self.bind(f, it.optional_vars, "fresh", env)
            self.block(f, s.body, env)
        elif isinstance(s, ast.Try):
            e1 = dict(env)
            self.block(f, s.body, e1)
            self.merge(env, e1)
            for h in s.handlers:
                e2 = dict(env)
                if h.name:
                    e2[h.name] = "fresh"
                self.block(f, h.body, e2)
                self.merge(env, e2)
            self.block(f, s.orelse, env)
            self.block(f, s.finalbody, env)
        elif isinstance(s, ast.FunctionDef):
            # nested function: analysed as its own function with the enclosing environment's names treated as captured
            self.add_fn(f.module, f.cls, s, prefix=f.node.name + ".<locals>.")
            inner = self.fns[[k for k in self.fns if k.endswith(f.node.name + ".<locals>." + s.name)][-1]]
            saved = self.globals_declared
            top = f.qual.split(".<locals>.")[0]
            persists = top.split(".")[-1] in self.decorator_names and self.fns.get(top) is not None and self.fns[top].cls is None
            self.analyze_fn(inner, {k: ("global" if persists else v) for k, v in env.items()})
            self.globals_declared = saved
            env[s.name] = "fresh"
            f.calls.append(("nested", inner.qual, None))
        elif isinstance(s, ast.ClassDef):
            f.unknown.append("nested class")
        elif isinstance(s, (ast.Return, ast.Expr, ast.Raise, ast.Assert)):
            self.exprs(f, s, env)
        elif isinstance(s, (ast.Pass, ast.Break, ast.Continue, ast.Import, ast.ImportFrom)):
            pass
        elif isinstance(s, ast.Match):
            # every name a pattern captures refers to (a part of) the subject: it gets the subject's category
            self.exprs(f, s.subject, env)
            subj = self.classify(f, s.subject, env)
            for case in s.cases:
                e1 = dict(env)
                for n in ast.walk(case.pattern):
                    nm = getattr(n, "name", None) or getattr(n, "rest", None)
                    if isinstance(nm, str):
                        e1[nm] = worst(e1.get(nm, subj), subj)
                    if isinstance(n, ast.MatchValue):
                        self.exprs(f, n.value, e1)
                if case.guard is not None:
                    self.exprs(f, case.guard, e1)
                self.block(f, case.body, e1)
                self.merge(env, e1)
        else:
            self.exprs(f, s, env)

    @staticmethod
    def merge(env, other):
        for k, v in other.items():
            env[k] = worst(env.get(k, v), v)

    # -- call graph closure of self writes ----------------------------------------
    def method_candidates(self, name):
        return [g for g in self.fns.values() if (g.cls or self.method_like(g)) and g.node.name == name]

    @staticmethod
    def method_like(g):
        """a closure whose first parameter is called `self` and that writes through nothing else: built to be installed on a class (as
        a method, or inside a property) by the function that returns it"""
        a = g.node.args.args
        return "<locals>" in g.qual and bool(a) and a[0].arg == "self" and g.written_params <= {"self"}

    def close_arg_writes(self):
        """A private helper function (leading underscore, module level) that writes through one of its parameters and is called by
        name inside the package is judged through its callers: each caller is charged according to what it passes - a fresh
        object (a cipher context it has just created, a new bytearray): nothing; one of its own parameters: an argument
        write; a module-level object: a shared write; `self`: a self write. The helper's own record then carries no argument
        write (see `emit`). Iterated to a fixed point, so chains of helpers are followed."""
        changed = True
        while changed:
            changed = False
            for f in self.fns.values():
                sites = [(call[1], call[2], False) for call in f.calls if call[0] == "name" and isinstance(call[2], list)]
                sites += [(name, args, True) for name, args in f.method_calls]
                for name, args, is_method in sites:
                    if is_method:
                        # a private method (`self._derive(buf, ...)`) that writes through a parameter other than `self`
                        cands = [g for g in self.fns.values() if g.cls is not None and g.node.name == name and self.is_private(name)]
                    else:
                        cands = [g for g in self.fns.values() if g.cls is None and g.module == f.module and g.node.name == name]
                    for g in cands:
                        if not g.arg:
                            continue
                        pnames = [a.arg for a in g.node.args.args]
                        if is_method and pnames and "staticmethod" not in [self.decorator_name(d) for d in g.node.decorator_list]:
                            pnames = pnames[1:]
                        for pos, (kw, cat) in enumerate(args):
                            pname = kw if kw is not None else (pnames[pos] if pos < len(pnames) else None)
                            if pname is not None and g.written_params and pname not in g.written_params:
                                continue          # this argument lands in a parameter the helper does not write through
                            tgt = {"self": f.selfw, "param": f.arg, "global": f.shared, "unknown": f.unknown}.get(cat)
                            desc = f"call of argument-writing helper {g.node.name}() with a {cat} object"
                            if tgt is not None and desc not in tgt:
                                tgt.append(desc)
                                if cat == "param":
                                    # which of the caller's own parameters: the names in the argument expression are not kept; mark all as suspect
                                    f.written_params.update(a.arg for a in f.node.args.args)
                                changed = True

    @staticmethod
    def is_private(leaf):
        return leaf.startswith("_") and not (leaf.startswith("__") and leaf.endswith("__"))

    def close_self_writes(self):
        """a method call on `self` / `self.<attr>` of a method that writes its own `self` is a self write;
        on a parameter receiver it is an argument write; on a module-level object a shared write."""
        inherited = {"clear", "pop", "popitem", "update", "setdefault"}  # MutableMapping mix-ins (already in MUTATORS)
        changed = True
        while changed:
            changed = False
            for f in self.fns.values():
                for kind, name, recv in f.calls:
                    if kind != "attr" or name in MUTATORS:
                        continue
                    cands = self.method_candidates(name)
                    # property setters are reached by attribute assignment, handled as stores
                    if not cands:
                        continue
                    if any(g.selfw or (self.method_like(g) and g.arg) for g in cands):
                        cat, txt = recv
                        desc = f"call of self-writing method .{name}() on {txt}"
                        tgt = {"self": f.selfw, "param": f.arg, "global": f.shared, "unknown": f.unknown}.get(cat)
                        if tgt is not None and desc not in tgt:
                            tgt.append(desc)
                            changed = True


def lean_str(s):
    return '"' + s.replace("\\", "\\\\").replace('"', '\\"').replace("\n", " ") + '"'


def lean_list(xs):
    return "[" + ", ".join(lean_str(x) for x in xs) + "]"


def emit(an, path):
    lines = ["import PsecModel.Conc",
             "/-! GENERATED on every run by harness/effects.py from the Python source under the repository's psec/ directory. Do not edit. -/",
             "namespace Psec.Generated", "open Psec.Conc", "",
             "def functions : List FnEffect := ["]
    rows = []
    # A private helper method (leading underscore, not a dunder) that writes its own `self` and is called by name from
    # somewhere in the package is judged through its callers: `close_self_writes` has already charged every caller with the
    # write, and the callers are held against the list of permitted mutators. Its own record therefore carries no self
    # write, so that renaming or extracting private helpers of the permitted mutators changes nothing. A private method that
    # is never called by name (reached through a dispatch table only) keeps its record and is judged directly.
    called = {name for g in an.fns.values() for kind, name, _ in g.calls if kind == "attr"}
    called_by_name = {name for g in an.fns.values() for kind, name, _ in g.calls if kind == "name"}
    for q in sorted(an.fns):
        f = an.fns[q]
        leaf = q.split(".")[-1] if not q.endswith((".setter", ".getter", ".deleter")) else q.split(".")[-2]
        private = leaf.startswith("_") and not (leaf.startswith("__") and leaf.endswith("__"))
        if private and leaf in called and f.cls is not None:
            f = FnInfo(f.qual, f.module, f.cls, f.node)
            g = an.fns[q]
            f.shared, f.arg, f.unknown, f.selfw = g.shared, [], g.unknown, []      # argument writes: charged to the callers by `close_arg_writes`
        elif an.method_like(f) and f.arg:
            # installed on a class by the function that built it: reached by an attribute store (a property setter - the store is
            # charged to whoever makes it), by a method call (charged by `close_self_writes`) or by name (`close_arg_writes`)
            f = FnInfo(f.qual, f.module, f.cls, f.node)
            g = an.fns[q]
            f.shared, f.arg, f.unknown, f.selfw = g.shared, [], g.unknown, g.selfw
        elif private and f.cls is None and leaf in called_by_name and "<locals>" not in q:
            f = FnInfo(f.qual, f.module, f.cls, f.node)
            g = an.fns[q]
            f.shared, f.arg, f.unknown, f.selfw = g.shared, [], g.unknown, g.selfw
        rows.append(f"  {{ name := {lean_str(q)}, sharedWrites := {lean_list(sorted(set(f.shared)))}, argWrites := {lean_list(sorted(set(f.arg)))}, "
                    f"selfWrites := {lean_list(sorted(set(f.selfw)))}, unknown := {lean_list(sorted(set(f.unknown)))} }}")
    lines.append(",\n".join(rows))
    lines.append("]")
    lines.append("")
    lines.append(f"def moduleLevelWrites : List String := {lean_list(sorted(an.module_writes))}")
    lines.append(f"def mutableGlobals : List String := {lean_list(sorted(an.mutable_globals))}")
    # the same rows grouped by module (so that the per-property scope theorems need no string surgery in the kernel)
    mods = sorted({q.split(".")[0] for q in an.fns} | set(an.imports))
    lines.append("def byModule : List (String × List FnEffect) := [")
    grp = []
    for m in mods:
        rs_ = [r for q, r in zip(sorted(an.fns), rows) if q.split(".")[0] == m]
        grp.append(f"  ({lean_str(m)}, [\n  " + ",\n  ".join(rs_) + "])")
    lines.append(",\n".join(grp))
    lines.append("]")
    lines.append("def writesByModule : List (String × List String) := [" + ", ".join(
        f"({lean_str(m)}, {lean_list(sorted(w for w in an.module_writes if w.split(':')[0] == m))})" for m in mods) + "]")
    lines.append("def moduleImports : List (String × List String) := [" + ", ".join(f"({lean_str(m)}, {lean_list(v)})" for m, v in sorted(an.imports.items())) + "]")
    lines.append("")
    lines.append("end Psec.Generated")
    src = "\n".join(lines) + "\n"
    old = open(path).read() if os.path.exists(path) else None
    if old != src:
        os.makedirs(os.path.dirname(path), exist_ok=True)
        with open(path, "w") as fh:
            fh.write(src)
    return src


def run(repo, out):
    an = Analyzer(os.path.join(repo, "psec"))
    an.load()
    emit(an, out)
    return an


if __name__ == "__main__":
    repo = sys.argv[1] if len(sys.argv) > 1 else "/repo"
    here = os.path.dirname(os.path.dirname(os.path.abspath(__file__)))
    an = run(repo, os.path.join(here, "lean", "PsecModel", "Generated", "Effects.lean"))
    for q in sorted(an.fns):
        f = an.fns[q]
        if f.shared or f.arg or f.selfw or f.unknown:
            print(q, "| shared:", f.shared, "| arg:", f.arg, "| self:", f.selfw, "| unknown:", f.unknown)
    print("module-level writes:", an.module_writes)
    print("mutable globals:", an.mutable_globals)

import PsecModel.Spec.CMAC
import PsecModel.Model.Tr31
/-!
# TR-31:2018 key blocks, written from the standard (independent of psec's code)

* key derivation: CMAC in counter mode over the 8-byte derivation data
  `counter ‖ usage(2) ‖ 0x00 ‖ algorithm(2) ‖ length(2)` (binding method B: TDEA, D: AES),
  key variants `⊕ 0x45…` / `⊕ 0x4D…` (methods A and C);
* authentication: CMAC over `header ‖ clear key data` (B, D), 4-byte CBC-MAC over
  `header ‖ encrypted key data` (A, C);
* the key-block grammar, with every encoding freedom explicit in `build`.

Only the `Header` record type and the primitive character/hex functions are shared with the model.
-/
namespace Psec.Spec.TR31
open Psec.Spec

abbrev Header := Psec.Tr31.Header

def bsOf (v : Nat) : Nat := if v = 68 then 16 else 8
def macLenOf (v : Nat) : Nat := if v = 66 then 8 else if v = 68 then 16 else 4

/-- CBC encryption / decryption over a list of blocks -/
def cbcEnc (E : Bytes → Bytes) (iv : Bytes) : List Bytes → List Bytes
  | [] => []
  | p :: ps => let c := E (xorBytes p iv); c :: cbcEnc E c ps
def cbcDec (D : Bytes → Bytes) (iv : Bytes) : List Bytes → List Bytes
  | [] => []
  | c :: cs => xorBytes (D c) iv :: cbcDec D c cs

def hi (n : Nat) : UInt8 := UInt8.ofNat (n / 256)
def lo (n : Nat) : UInt8 := UInt8.ofNat (n % 256)

/-- derivation data for counter `i`, usage `u` (0 encryption, 1 MAC), algorithm indicator `a`, length `l` in bits -/
def kdInput (i u a l : Nat) : Bytes := [UInt8.ofNat i, hi u, lo u, 0, hi a, lo a, hi l, lo l]

def kdfLoop (E : Bytes → Bytes) (bs : Nat) (u a l : Nat) : List Nat → Bytes
  | [] => []
  | i :: r => cmac E bs (kdInput i u a l) ++ kdfLoop E bs u a l r

/-- (KBEK, KBAK) for binding methods B and D -/
def deriveKeys (c : Ciphers) (ver : Nat) (kbpk : Bytes) : Bytes × Bytes :=
  if ver = 66 then
    let (a, l, n) := if kbpk.length = 16 then (0, 128, [1, 2]) else (1, 192, [1, 2, 3])
    (kdfLoop (c.tdesE kbpk) 8 0 a l n, kdfLoop (c.tdesE kbpk) 8 1 a l n)
  else if ver = 68 then
    let (a, l, n) := if kbpk.length = 16 then (2, 128, [1]) else if kbpk.length = 24 then (3, 192, [1, 2]) else (4, 256, [1, 2])
    ((kdfLoop (c.aesE kbpk) 16 0 a l n).take kbpk.length, (kdfLoop (c.aesE kbpk) 16 1 a l n).take kbpk.length)
  else
    (kbpk.map (· ^^^ 0x45), kbpk.map (· ^^^ 0x4D))

def kbpkOk (ver : Nat) (kbpk : Bytes) : Bool :=
  if ver = 66 then kbpk.length == 16 || kbpk.length == 24
  else if ver = 68 then kbpk.length == 16 || kbpk.length == 24 || kbpk.length == 32
  else kbpk.length == 8 || kbpk.length == 16 || kbpk.length == 24

def asciiBytes (s : PyStr) : Bytes := s.map UInt8.ofNat

/-- the authenticator of a key block -/
def tag (c : Ciphers) (ver : Nat) (kbak : Bytes) (hdr : PyStr) (clear enc : Bytes) : Bytes :=
  if ver = 66 then cmac (c.tdesE kbak) 8 (asciiBytes hdr ++ clear)
  else if ver = 68 then cmac (c.aesE kbak) 16 (asciiBytes hdr ++ clear)
  else mac1 (c.tdesE kbak) 8 (pad1 (asciiBytes hdr ++ enc) 8) 4

/-! ## grammar -/

def hexOfByte (upper : Bool) (b : UInt8) : PyStr := if upper then byteHexU b else byteHexL b
def hexOfBytes (upper : Bool) (b : Bytes) : PyStr := b.flatMap (hexOfByte upper)

def natHex (digits n : Nat) : PyStr :=
  (List.range digits).reverse.map (fun i => hexDigitU ((n / 16 ^ i) % 16))

/-- one optional block; `form = 0` short length, `form = k ≥ 1` extended with a `k`-byte length field -/
def encodeBlock (id data : PyStr) (form : Nat) : PyStr :=
  if form = 0 then id ++ natHex 2 (data.length + 4) ++ data
  else id ++ [48, 48] ++ natHex 2 form ++ natHex (2 * form) (data.length + 6 + 2 * form) ++ data

def encodeBlocks : List (PyStr × PyStr) → List Nat → PyStr
  | [], _ => []
  | (id, d) :: r, f :: fs => encodeBlock id d f ++ encodeBlocks r fs
  | (id, d) :: r, [] => encodeBlock id d 0 ++ encodeBlocks r []

def dec2 (n : Nat) : PyStr := [48 + (n / 10) % 10, 48 + n % 10]
def dec4 (n : Nat) : PyStr := [48 + (n / 1000) % 10, 48 + (n / 100) % 10, 48 + (n / 10) % 10, 48 + n % 10]

def splitBlocks (bs : Nat) : Nat → Bytes → List Bytes
  | 0, _ => []
  | f + 1, d => if d = [] then [] else d.take bs :: splitBlocks bs f (d.drop bs)

/-- size of the pad block's data for a body of `bodyLen` characters: the minimal size that makes the header a block multiple,
plus `(padMode - 1)` further cipher blocks -/
def padSize (bs bodyLen padMode : Nat) : Nat := (bs - (16 + bodyLen + 4) % bs) % bs + (padMode - 1) * bs

/-- the pad block (text and count contribution): present when the body is not aligned or when `padMode ≥ 1` asks for one anyway -/
def padBlock (bs bodyLen padMode : Nat) : PyStr × Nat :=
  if (16 + bodyLen) % bs ≠ 0 ∨ padMode ≥ 1 then
    ([80, 66] ++ natHex 2 (4 + padSize bs bodyLen padMode) ++ List.replicate (padSize bs bodyLen padMode) 48, 1)
  else ([], 0)

/-- Build a key block with explicit encoding freedoms:
`forms` length form per optional block, `padMode` (0: pad block only when needed and minimal; k ≥ 1: always a pad block,
minimal size plus `(k-1)` cipher blocks), `pad` the key padding bytes (any length making the clear data a block multiple),
`lower` lower-case hex in the binary section. -/
def build (c : Ciphers) (kbpk : Bytes) (h : Header) (forms : List Nat) (padMode : Nat) (key pad : Bytes) (lower : Bool) : PyStr :=
  let ver := h.versionId.headD 0
  let bs := bsOf ver
  let ml := macLenOf ver
  let body := encodeBlocks h.blocks forms
  let (pb, cnt) := padBlock bs body.length padMode
  let opt := body ++ pb
  let clear := [hi (8 * key.length), lo (8 * key.length)] ++ key ++ pad
  let total := 16 + opt.length + 2 * clear.length + 2 * ml
  let hdr := h.versionId ++ dec4 total ++ h.keyUsage ++ h.algorithm ++ h.modeOfUse ++ h.versionNum ++
    h.exportability ++ dec2 (h.blocks.length + cnt) ++ h.reserved ++ opt
  let (kbek, kbak) := deriveKeys c ver kbpk
  let blocks := splitBlocks bs clear.length clear
  if ver = 66 ∨ ver = 68 then
    let E := if ver = 68 then c.aesE kbek else c.tdesE kbek
    let t := tag c ver kbak hdr clear []
    let enc := (cbcEnc E t blocks).flatten
    hdr ++ hexOfBytes (!lower) enc ++ hexOfBytes (!lower) t
  else
    let enc := (cbcEnc (c.tdesE kbek) ((asciiBytes hdr).take 8) blocks).flatten
    let t := tag c ver kbak hdr [] enc
    hdr ++ hexOfBytes (!lower) enc ++ hexOfBytes (!lower) t

/-- a pad block as another implementation may write it: `fill` any printable character, `form = 0` short length field,
`form = k ≥ 1` extended form with a `k`-byte length field (legal for the pad block too), id in the given letter case;
always present, minimal size plus `extra` cipher blocks -/
def padBlockWith (bs bodyLen extra fill form : Nat) (id : PyStr) : PyStr :=
  let overhead := if form = 0 then 4 else 6 + 2 * form
  let n := (bs - (16 + bodyLen + overhead) % bs) % bs + extra * bs
  if form = 0 then id ++ natHex 2 (4 + n) ++ List.replicate n fill
  else id ++ [48, 48] ++ natHex 2 form ++ natHex (2 * form) (n + 6 + 2 * form) ++ List.replicate n fill

/-- `build` with a foreign-looking pad block (see `padBlockWith`); used by the correspondence streams only — the theorems speak
of `build` -/
def buildForeignPad (c : Ciphers) (kbpk : Bytes) (h : Header) (forms : List Nat) (extra fill form : Nat) (padId : PyStr)
    (key pad : Bytes) (lower : Bool) : PyStr :=
  let ver := h.versionId.headD 0
  let bs := bsOf ver
  let ml := macLenOf ver
  let body := encodeBlocks h.blocks forms
  let opt := body ++ padBlockWith bs body.length extra fill form padId
  let clear := [hi (8 * key.length), lo (8 * key.length)] ++ key ++ pad
  let total := 16 + opt.length + 2 * clear.length + 2 * ml
  let hdr := h.versionId ++ dec4 total ++ h.keyUsage ++ h.algorithm ++ h.modeOfUse ++ h.versionNum ++
    h.exportability ++ dec2 (h.blocks.length + 1) ++ h.reserved ++ opt
  let (kbek, kbak) := deriveKeys c ver kbpk
  let blocks := splitBlocks bs clear.length clear
  if ver = 66 ∨ ver = 68 then
    let E := if ver = 68 then c.aesE kbek else c.tdesE kbek
    let t := tag c ver kbak hdr clear []
    let enc := (cbcEnc E t blocks).flatten
    hdr ++ hexOfBytes (!lower) enc ++ hexOfBytes (!lower) t
  else
    let enc := (cbcEnc (c.tdesE kbek) ((asciiBytes hdr).take 8) blocks).flatten
    let t := tag c ver kbak hdr [] enc
    hdr ++ hexOfBytes (!lower) enc ++ hexOfBytes (!lower) t

/-- `build` with the clear key data given as raw bytes (so that a holder of the KBPK can produce authentic blocks whose
length prefix is wrong in every possible way — used only by the correspondence streams that exercise the rejection paths
behind the MAC check) -/
def buildRaw (c : Ciphers) (kbpk : Bytes) (h : Header) (forms : List Nat) (padMode : Nat) (clear : Bytes) (lower : Bool) : PyStr :=
  let ver := h.versionId.headD 0
  let bs := bsOf ver
  let ml := macLenOf ver
  let body := encodeBlocks h.blocks forms
  let (pb, cnt) := padBlock bs body.length padMode
  let opt := body ++ pb
  let total := 16 + opt.length + 2 * clear.length + 2 * ml
  let hdr := h.versionId ++ dec4 total ++ h.keyUsage ++ h.algorithm ++ h.modeOfUse ++ h.versionNum ++
    h.exportability ++ dec2 (h.blocks.length + cnt) ++ h.reserved ++ opt
  let (kbek, kbak) := deriveKeys c ver kbpk
  let blocks := splitBlocks bs clear.length clear
  if ver = 66 ∨ ver = 68 then
    let E := if ver = 68 then c.aesE kbek else c.tdesE kbek
    let t := tag c ver kbak hdr clear []
    let enc := (cbcEnc E t blocks).flatten
    hdr ++ hexOfBytes (!lower) enc ++ hexOfBytes (!lower) t
  else
    let enc := (cbcEnc (c.tdesE kbek) ((asciiBytes hdr).take 8) blocks).flatten
    let t := tag c ver kbak hdr [] enc
    hdr ++ hexOfBytes (!lower) enc ++ hexOfBytes (!lower) t

/-- versions A and C authenticate the *encrypted* key data: a holder of the KBPK can therefore attach a correct MAC to
encrypted key data of any length, a whole number of cipher blocks or not (used only by the correspondence streams that
exercise the rejection paths behind the MAC check) -/
def buildRawEnc (c : Ciphers) (kbpk : Bytes) (h : Header) (enc : Bytes) (lower : Bool) : PyStr :=
  let ver := h.versionId.headD 0
  let bs := bsOf ver
  let ml := macLenOf ver
  let body := encodeBlocks h.blocks []
  let (pb, cnt) := padBlock bs body.length 0
  let opt := body ++ pb
  let total := 16 + opt.length + 2 * enc.length + 2 * ml
  let hdr := h.versionId ++ dec4 total ++ h.keyUsage ++ h.algorithm ++ h.modeOfUse ++ h.versionNum ++
    h.exportability ++ dec2 (h.blocks.length + cnt) ++ h.reserved ++ opt
  let (_, kbak) := deriveKeys c ver kbpk
  let t := tag c ver kbak hdr [] enc
  hdr ++ hexOfBytes (!lower) enc ++ hexOfBytes (!lower) t

/-! ## parsing and verification from the grammar -/

def hexNat? (s : PyStr) : Option Nat :=
  if s.all isHexC ∧ s ≠ [] then some (parseHexNat s) else none

def hex2? (s : PyStr) : Option Nat := if s.length = 2 then hexNat? s else none

def dec? (s : PyStr) : Option Nat :=
  if s.all isDigitC ∧ s ≠ [] then some (decVal s) else none

/-- parse `n` optional blocks; returns them (pad block included) and the rest -/
def parseBlocks : Nat → PyStr → Option (List (PyStr × PyStr) × PyStr)
  | 0, s => some ([], s)
  | n + 1, s =>
    let id := s.take 2
    if id.length ≠ 2 ∨ ¬ id.all isAlnumC then none else
    match hex2? ((s.drop 2).take 2) with
    | none => none
    | some 0 =>
      (match hex2? ((s.drop 4).take 2) with
      | none => none
      | some ll =>
        if ll = 0 then none else
        let lf := (s.drop 6).take (2 * ll)
        if lf.length ≠ 2 * ll then none else
        match hexNat? lf with
        | none => none
        | some total =>
          if total < 6 + 2 * ll then none else
          let dl := total - 6 - 2 * ll
          let data := (s.drop (6 + 2 * ll)).take dl
          if data.length ≠ dl ∨ ¬ data.all isPrintC then none else
          match parseBlocks n (s.drop (6 + 2 * ll + dl)) with
          | none => none
          | some (bl, rest) => some ((id, data) :: bl, rest))
    | some l =>
      if l < 4 then none else
      let data := (s.drop 4).take (l - 4)
      if data.length ≠ l - 4 ∨ ¬ data.all isPrintC then none else
      match parseBlocks n (s.drop l) with
      | none => none
      | some (bl, rest) => some ((id, data) :: bl, rest)

def hexBytes? : PyStr → Option Bytes := a2bHex

/-- Verify and open a key block by the standard: returns the header (pad block removed) and the key. -/
def unwrap (c : Ciphers) (kbpk : Bytes) (s : PyStr) : Option (Header × Bytes) :=
  if s.length < 16 ∨ ¬ (s.take 16).all isAlnumC then none else
  let ver := s.headD 0
  if ¬ (ver = 65 ∨ ver = 66 ∨ ver = 67 ∨ ver = 68) then none else
  if ¬ kbpkOk ver kbpk then none else
  let bs := bsOf ver
  let ml := macLenOf ver
  match dec? ((s.drop 1).take 4), dec? ((s.drop 12).take 2) with
  | some total, some cnt =>
    if total ≠ s.length ∨ total % bs ≠ 0 then none else
    match parseBlocks cnt (s.drop 16) with
    | none => none
    | some (blocks, rest) =>
      let hl := s.length - rest.length
      if rest.length < 2 * ml + 2 * bs then none else
      match hexBytes? (rest.take (rest.length - 2 * ml)), hexBytes? (rest.drop (rest.length - 2 * ml)) with
      | some enc, some t =>
        if enc.length % bs ≠ 0 then none else
        let hdr := s.take hl
        let (kbek, kbak) := deriveKeys c ver kbpk
        let cblocks := splitBlocks bs enc.length enc
        let clear : Bytes :=
          if ver = 68 then (cbcDec (c.aesD kbek) t cblocks).flatten
          else if ver = 66 then (cbcDec (c.tdesD kbek) t cblocks).flatten
          else (cbcDec (c.tdesD kbek) ((asciiBytes hdr).take 8) cblocks).flatten
        if tag c ver kbak hdr clear enc ≠ t then none else
        let bits := fromBytesBE (clear.take 2)
        if bits % 8 ≠ 0 ∨ bits / 8 + 2 > clear.length then none else
        let key := (clear.drop 2).take (bits / 8)
        let h : Header :=
          { versionId := [ver], keyUsage := (s.drop 5).take 2, algorithm := (s.drop 7).take 1,
            modeOfUse := (s.drop 8).take 1, versionNum := (s.drop 9).take 2, exportability := (s.drop 11).take 1,
            reserved := (s.drop 14).take 2, blocks := blocks.filter (fun b => b.1 ≠ [80, 66]) }
        some (h, key)
      | _, _ => none
  | _, _ => none

end Psec.Spec.TR31

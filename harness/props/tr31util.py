"""Shared TR-31 generators."""
import string

from core import build_header, Case, call_impl, enc, enc_b, enc_header, enc_s, enc_i, psec

tr31 = psec.tr31
ALNUM = string.ascii_letters + string.digits
PRINTABLE = "".join(chr(i) for i in range(32, 127))
VERS = {"A": (8, (8, 16, 24), 4), "B": (8, (16, 24), 8), "C": (8, (8, 16, 24), 4), "D": (16, (16, 24, 32), 16)}
UNWRAP_TOK = lambda v: enc_header(v[0]) + "\t" + enc_b(v[1])  # noqa: E731


def rb(rng, n):
    return bytes(rng.getrandbits(8) for _ in range(n))


def rs(rng, n, alphabet=ALNUM):
    return "".join(rng.choice(alphabet) for _ in range(n))


# optional block ids the standard (TR-31:2018 / X9.143) gives a meaning to: to the properties they are ids like any other, with
# any printable data - an implementation that treats some of them specially must still frame, wrap and unwrap them
STANDARD_USAGES = ["B0", "B1", "B2", "C0", "D0", "D1", "D2", "E0", "E1", "E2", "E3", "E4", "E5", "E6", "I0", "K0", "K1", "K2", "K3", "M0", "M1", "M2",
                   "M3", "M4", "M5", "M6", "M7", "M8", "P0", "S0", "S1", "S2", "V0", "V1", "V2", "V3", "V4", "10", "i0", "00"]
STANDARD_MODES = list("BCDEGNSTVXY") + ["0", "1"]
STANDARD_IDS = ["AL", "BI", "CT", "DA", "FL", "HM", "IK", "KC", "KP", "KS", "KV", "LB", "PK", "TC", "TS", "WP", "kc", "Kp", "ts", "10", "99", "00"]


def rand_id(rng, used):
    while True:
        i = rng.choice(STANDARD_IDS) if rng.random() < 0.35 else rs(rng, 2)
        if i.upper() != "PB" and i not in used:
            used.add(i)
            return i


def rand_blocks(rng, n, lens=None):
    used, out = set(), []
    for _ in range(n):
        ln = rng.choice(lens) if lens else rng.choice([0, 1, 2, 3, 4, 5, 7, 8, 12, 16, 20, 31])
        alphabet = rng.choice([PRINTABLE, ALNUM, " ", "0", PRINTABLE])
        out.append((rand_id(rng, used), rs(rng, ln, alphabet)))
    return out


def make_header(rng, ver, blocks=(), reserved=None, alg=None, via_load=None):
    """A psec Header object built through the public API (reserved != '00' only via load)."""
    ku, al, mou, vn, ex = rs(rng, 2), alg or rng.choice("TDA0RHEtda" + ALNUM), rs(rng, 1), rs(rng, 2), rs(rng, 1)
    if rng.random() < 0.4:
        # the values the standard defines (an implementation may attach a meaning to any of them; the properties do not)
        ku, mou, vn, ex = rng.choice(STANDARD_USAGES), rng.choice(STANDARD_MODES), rng.choice(("00", "01", "c1", vn)), rng.choice("ENS")
    if reserved is None and rng.random() < 0.3:
        reserved = rs(rng, 2)
    if reserved is not None and reserved != "00" or via_load:
        h = tr31.Header()
        h.load(ver + "0016" + ku + al + mou + vn + ex + "00" + (reserved or "00"))
    else:
        h = tr31.Header(ver, ku, al, mou, vn, ex)
    for k, v in blocks:
        h.blocks[k] = v
    return h


def header_tuple(h):
    return (h.version_id, h.key_usage, h.algorithm, h.mode_of_use, h.version_num, h.exportability, h.reserved,
            tuple((k, h.blocks[k]) for k in h.blocks))


def clone_header(h):
    """an independent copy, made through the public interface"""
    t = header_tuple(h)
    return build_header(t[:7], t[7])


def wrap_case(c, kbpk, h, key, mask, header_as_str=False):
    """tr31.wrap on implementation and model (entropy recorded); returns the CallResult."""
    return c.call("tr31.wrap", kbpk, h, key, mask, op="tr31.wrap", stream="tr31", with_entropy=True)


def unwrap_case(c, kbpk, s, compare=True):
    return c.call("tr31.unwrap", kbpk, s, op="tr31.unwrap", stream="tr31", tok=UNWRAP_TOK, compare=compare)


def genuine(rng, ver=None, ksize=None, nblocks=None, keylen=None, mask=None, lens=None):
    """(kbpk, header object, key, key block string) produced by the implementation itself."""
    ver = ver or rng.choice("ABCD")
    bs, ksizes, ml = VERS[ver]
    kbpk = rb(rng, ksize or rng.choice(ksizes))
    h = make_header(rng, ver, rand_blocks(rng, rng.randrange(0, 4) if nblocks is None else nblocks, lens))
    key = rb(rng, rng.choice([0, 1, 8, 16, 24, 32]) if keylen is None else keylen)
    kb = tr31.wrap(kbpk, h, key, mask)
    return kbpk, h, key, kb


def split_block(kb, ver):
    """(header section, key-data hex, mac hex) of a genuine block, using the implementation's own parser."""
    bs, _, ml = VERS[ver]
    hl = tr31.Header().load(kb)
    return kb[:hl], kb[hl:len(kb) - 2 * ml], kb[len(kb) - 2 * ml:]


FIELDS = ["version_id", "key_usage", "algorithm", "mode_of_use", "version_num", "exportability"]


class Session:
    """One live KeyBlock object on the implementation, mirrored by `hist.*` lines for the model.
    Every step records the outcome and the full visible state of the object afterwards."""

    def __init__(self, c, kbpk, harg=None):
        self.c = c
        self.kbpk = kbpk
        arg = clone_header(harg) if isinstance(harg, tr31.Header) else harg
        r = call_impl(tr31.KeyBlock, (kbpk, arg), stream="tr31")
        c.calls.append({"fn": "tr31.KeyBlock", "args": [enc(kbpk), enc(harg)], "entropy": "", "stream": "tr31", "session": True})
        self.kb = r.value if r.ok else None
        exp = ("ok\tn\t" + enc_header(self.kb.header)) if r.ok else "err\t" + r.err
        c.line(f"hist.new\t{enc_b(kbpk)}\t{enc(harg)}", exp, "tr31")
        self.created = r

    def _finish(self, r, line, valtok, with_entropy=False):
        c = self.c
        if with_entropy:
            line = line + "\t" + enc_b(r.entropy)
        elif r.entropy:
            c.fail("a deterministic operation drew OS entropy")
        st = enc_header(self.kb.header)
        exp = ("ok\t" + valtok(r.value) + "\t" + st) if r.ok else ("err\t" + r.err + "\t" + st)
        r.index = c.line(line, exp, "tr31")
        r.state = st
        return r

    def unwrap(self, s):
        r = call_impl(self.kb.unwrap, (s,), stream="tr31")
        self.c.calls.append({"fn": "KeyBlock.unwrap", "args": [enc_s(s)], "entropy": "", "stream": "tr31", "session": True})
        return self._finish(r, "hist.unwrap\t" + enc_s(s), enc_b)

    def load(self, s):
        r = call_impl(self.kb.header.load, (s,), stream="tr31")
        self.c.calls.append({"fn": "Header.load", "args": [enc_s(s)], "entropy": "", "stream": "tr31", "session": True})
        return self._finish(r, "hist.load\t" + enc_s(s), lambda v: "i:" + str(v))

    def wrap(self, key, mask=None):
        before = enc_header(self.kb.header)
        r = call_impl(self.kb.wrap, (key, mask), stream="tr31")
        self.c.calls.append({"fn": "KeyBlock.wrap", "args": [enc_b(key), enc_i(mask)], "entropy": r.entropy.hex(), "stream": "tr31", "session": True})
        if enc_header(self.kb.header) != before:
            self.c.fail("KeyBlock.wrap modified the header")
        return self._finish(r, f"hist.wrap\t{enc_b(key)}\t{enc_i(mask)}", enc_s, with_entropy=True)

    def set(self, idx, v):
        r = call_impl(lambda val: setattr(self.kb.header, FIELDS[idx], val), (v,), stream="tr31")
        self.c.calls.append({"fn": "Header." + FIELDS[idx] + ".setter", "args": [enc_s(v)], "entropy": "", "stream": "tr31", "session": True})
        return self._finish(r, f"hist.set\ti:{idx}\t{enc_s(v)}", lambda v: "n")

    def setblock(self, bid, v):
        r = call_impl(self.kb.header.blocks.__setitem__, (bid, v), stream="tr31")
        self.c.calls.append({"fn": "Blocks.__setitem__", "args": [enc_s(bid), enc_s(v)], "entropy": "", "stream": "tr31", "session": True})
        return self._finish(r, f"hist.setblock\t{enc_s(bid)}\t{enc_s(v)}", lambda v: "n")

    def delblock(self, bid):
        r = call_impl(self.kb.header.blocks.__delitem__, (bid,), stream="tr31")
        self.c.calls.append({"fn": "Blocks.__delitem__", "args": [enc_s(bid)], "entropy": "", "stream": "tr31", "session": True})
        return self._finish(r, f"hist.delblock\t{enc_s(bid)}", lambda v: "n")

    def setkbpk(self, k):
        r = call_impl(lambda v: setattr(self.kb, "kbpk", v), (k,), stream="tr31")
        self.kbpk = k
        self.c.calls.append({"fn": "KeyBlock.kbpk=", "args": [enc_b(k)], "entropy": "", "stream": "tr31", "session": True})
        return self._finish(r, f"hist.setkbpk\t{enc_b(k)}", lambda v: "n")

    def _state_check(self, r, what):
        """the model's state after the primitive steps just sent must be the implementation's state now (checked through a
        state-returning no-op: re-assigning the same KBPK)"""
        st = enc_header(self.kb.header)
        self.c.line(f"hist.setkbpk\t{enc_b(self.kbpk)}", "ok\tn\t" + st, "tr31")
        self.c.calls.append({"fn": "Blocks." + what, "args": [], "entropy": "", "stream": "tr31", "session": True})
        return r

    def update(self, pairs):
        """`blocks.update(dict)` - inherited mapping method = `__setitem__` per item, stopping at the first that raises.
        Only the last pair may be invalid (the harness cannot see how far the implementation got otherwise)."""
        r = call_impl(self.kb.header.blocks.update, (dict(pairs),), stream="tr31")
        for k, v in pairs:
            self.c.line(f"hist.setblock\t{enc_s(k)}\t{enc_s(v)}", None, "tr31")
        if not r.ok and r.err != "tr31":
            self.c.fail(f"blocks.update escaped as {r.err}")
        return self._state_check(r, "update")

    def setdefault(self, k, v):
        present = k in list(self.kb.header.blocks)
        old = self.kb.header.blocks[k] if present else None
        r = call_impl(self.kb.header.blocks.setdefault, (k, v), stream="tr31")
        if not present:
            self.c.line(f"hist.setblock\t{enc_s(k)}\t{enc_s(v)}", None, "tr31")
        if r.ok and r.value != (old if present else v):
            self.c.fail(f"blocks.setdefault returned {r.value!r}")
        if not r.ok and r.err != "tr31":
            self.c.fail(f"blocks.setdefault escaped as {r.err}")
        return self._state_check(r, "setdefault")

    def pop(self, k):
        present = k in list(self.kb.header.blocks)
        old = self.kb.header.blocks[k] if present else None
        r = call_impl(self.kb.header.blocks.pop, (k,), stream="tr31")
        if present:
            self.c.line(f"hist.delblock\t{enc_s(k)}", None, "tr31")
            if not r.ok or r.value != old:
                self.c.fail("blocks.pop of a present id did not return its data")
        elif r.ok or not isinstance(r.exc, KeyError):
            self.c.fail("blocks.pop of an absent id did not raise KeyError")
        return self._state_check(r, "pop")

    def clear(self):
        ids = list(self.kb.header.blocks)
        r = call_impl(self.kb.header.blocks.clear, (), stream="tr31")
        for k in ids:
            self.c.line(f"hist.delblock\t{enc_s(k)}", None, "tr31")
        if not r.ok:
            self.c.fail(f"blocks.clear raised {r.err}")
        return self._state_check(r, "clear")

    def accessors(self):
        """read-only accessors of the mapping and of the key block object, judged against the visible state (implementation only)"""
        h = self.kb.header
        ids = list(h.blocks)
        want = dict((k, h.blocks[k]) for k in ids)
        for absent in ("ZZ", "zz", "PB", ids[0].swapcase() if ids else "Kx", ""):
            if absent in want:
                continue
            r = call_impl(h.blocks.__getitem__, (absent,), stream="tr31")
            if r.ok or not isinstance(r.exc, KeyError):
                self.c.fail(f"blocks[{absent!r}] on a header without that block: {'returned ' + repr(r.value) if r.ok else repr(r.exc)} (KeyError expected)")
            if absent in h.blocks:
                self.c.fail(f"{absent!r} in blocks is True although iteration does not list it")
        if repr(h.blocks) != repr(want):
            self.c.fail(f"repr(blocks) {repr(h.blocks)[:80]} differs from the mapping's items")
        a, b = call_impl(self.kb.__str__, (), stream="tr31"), call_impl(h.__str__, (), stream="tr31")
        if a.ok != b.ok or (a.ok and a.value != b.value) or (not a.ok and type(a.exc) is not type(b.exc)):
            self.c.fail("str(KeyBlock) differs from str(its header)")

    def state_now(self):
        return enc_header(self.kb.header)

    def str(self):
        self.accessors()
        r = call_impl(self.kb.header.__str__, (), stream="tr31")
        self.c.calls.append({"fn": "Header.__str__", "args": [], "entropy": "", "stream": "tr31", "session": True})
        return self._finish(r, "hist.str", enc_s)


def boundary_kbpks(ver):
    """[(kbpk, description)]: protection keys on the boundaries of the CMAC subkey derivation (corpus/TR31/cmac_boundary.jsonl,
    built by harness/tools/build_cmac_boundary.py with the `cryptography` package): E_K(0), K1, or the same for the derived
    authentication key, start with 0x80 / 0x7F / 0x00 / 0xFF / 0x81 / 0xC0 / 0x40 (top bit and carry cases of the doubling)."""
    import json
    import os
    path = os.path.join(os.path.dirname(os.path.dirname(os.path.dirname(os.path.abspath(__file__)))), "corpus", "TR31", "cmac_boundary.jsonl")
    out = []
    if os.path.exists(path):
        for line in open(path):
            e = json.loads(line)
            if e["ver"] == ver:
                out.append((bytes.fromhex(e["kbpk"]), f"{e['what']} starts {e['first_byte']}"))
    return out


def boundary_cases(rng, ver, tier):
    """wrap (implementation against the model, byte for byte under the recorded entropy), unwrap of the result, and a block with one
    MAC character changed, under every boundary KBPK of the version"""
    from core import Case
    ks = boundary_kbpks(ver)
    if tier == "quick":
        ks = [k for k in ks if k[1].split()[-1] in ("80", "7f", "ff", "00")]
    for kbpk, what in ks:
        h = make_header(rng, ver, rand_blocks(rng, rng.choice([0, 1])))
        key = rb(rng, rng.choice([8, 16, 24]))
        c = Case(f"{ver}:cmac-boundary-kbpk", {"what": what, "kbpk": len(kbpk)})
        w = wrap_case(c, kbpk, h, key, rng.choice([None, 0]))
        if not w.ok:
            c.fail("wrap raised " + w.err)
        else:
            r = unwrap_case(c, kbpk, w.value)
            if not r.ok or r.value[1] != key:
                c.fail("block wrapped under a CMAC-boundary KBPK does not unwrap to its key")
            t = w.value[:-1] + ("0" if w.value[-1] != "0" else "1")
            r2 = unwrap_case(c, kbpk, t)
            if r2.ok:
                c.fail("block with a changed MAC character accepted")
        yield c, kbpk, h, key, w


def pick_id(rng, se):
    """a block id for an assignment on a live object: four times in ten one the header already carries (the assignment then
    overwrites - still one block, in its old place), otherwise a new one (standard-defined or random, never the pad block)"""
    try:
        have = list(se.kb.header.blocks)
    except Exception:  # noqa: BLE001
        have = []
    if have and rng.random() < 0.4:
        return rng.choice(have)
    return rand_id(rng, set())


def self_referential(rng, ver):
    """[(header, key, mask, note)]: headers whose text contains, a second time, the four digits of their own length field - the
    header's own length (what `str` prints) or the key block's total length (what `wrap` prints): in the fixed fields
    (key usage + algorithm + mode of use), in block data, in a block id + length, and as <count><reserved> when a header
    of N optional blocks is exactly N*100 characters long. A serialiser that patches the length in by text search hits them."""
    bs = VERS[ver][0]
    out = []

    def mk(ku, alg, mou, blocks):
        h = tr31.Header(ver, ku, alg, mou, "00", "N")
        for k, v in blocks:
            h.blocks[k] = v
        return h

    def lengths(h, key, mask):
        try:
            return len(str(h)), len(tr31.wrap(b"\x11" * 16, h, key, mask))
        except Exception:  # noqa: BLE001
            return None, None
    for key, mask in ((rb(rng, 16), None), (rb(rng, 5), 0), (rb(rng, 24), 40)):
        # fixed fields: the length digits spelled by key usage + algorithm + mode of use
        h0 = mk("P0", "T", "E", [])
        hl, tl = lengths(h0, key, mask)
        for L in (hl, tl):
            if L:
                d = str(L).zfill(4)
                out.append((mk(d[:2], d[2], d[3], []), key, mask, f"fixed fields spell {d}"))
        # block data holding the digits (data length fixed, so the lengths do not move)
        for dl in (4, 7, 12):
            h1 = mk("P0", "T", "E", [("KS", "x" * dl)])
            hl, tl = lengths(h1, key, mask)
            for L in (hl, tl):
                if L:
                    d = str(L).zfill(4)
                    data = ("x" * dl)[: (dl - 4) // 2] + d + ("x" * dl)[(dl - 4) // 2 + 4:]
                    out.append((mk("P0", "T", "E", [("KS", data)]), key, mask, f"block data holds {d}"))
        # block id + short length field spelling the digits: id = first two digits, data length so that the length byte matches
        h2 = mk("P0", "T", "E", [("00", "y" * 4)])
        hl, tl = lengths(h2, key, mask)
        for L in (hl, tl):
            if L:
                d = str(L).zfill(4)
                ln = int(d[2:], 16) - 4 if all(ch in "0123456789" for ch in d[2:]) else -1
                if 0 <= ln <= 60:
                    cand = mk("P0", "T", "E", [(d[:2], "z" * ln)])
                    if str(len(str(cand))).zfill(4) == d or lengths(cand, key, mask)[1] == L:
                        out.append((cand, key, mask, f"block id and length spell {d}"))
    # N blocks in a header of exactly N*100 characters: "<NN><00>" = count + reserved repeats the length digits
    for N in (1, 2, 4):
        target = N * 100
        if target % bs:
            continue
        per = (target - 16) // N - 4
        rest = (target - 16) - N * (per + 4)
        blocks = [(f"{j:02d}".replace("0", "A", 1) if False else f"K{j}", "w" * (per + (rest if j == 0 else 0))) for j in range(N)]
        h = mk("P0", "T", "E", blocks)
        try:
            if len(str(h)) == target:
                out.append((h, rb(rng, 16), None, f"{N} blocks in {target} characters"))
                out.append((h, rb(rng, 16), 40, f"{N} blocks in {target} characters"))
        except Exception:  # noqa: BLE001
            pass
    return out


def digit_payload_cases(rng):
    """corpus/TR31/digit_payload.jsonl (built by harness/tools/build_digit_payload.py with `cryptography` only): version A / C blocks whose
    encrypted key data and MAC contain no hex letter. Each is wrapped under the recorded masking pad (the result must be the
    recorded block), unwrapped, and offered with its hex section in lower case (no letters: the same string)."""
    import json
    import os
    from core import Case
    path = os.path.join(os.path.dirname(os.path.dirname(os.path.dirname(os.path.abspath(__file__)))), "corpus", "TR31", "digit_payload.jsonl")
    if not os.path.exists(path):
        return
    for line in open(path):
        e = json.loads(line)
        kbpk, key, pad = bytes.fromhex(e["kbpk"]), bytes.fromhex(e["key"]), bytes.fromhex(e["pad"])
        c = Case(f"{e['ver']}:digits-only-binary-section", {"key": len(key)})
        w = c.call("tr31.wrap", kbpk, e["header"], key, 0, op="tr31.wrap", stream="tr31", with_entropy=True, entropy=pad + bytes(16))
        if not w.ok:
            c.fail("wrap raised " + w.err)
        elif w.value != e["block"]:
            c.fail(f"wrap under the recorded pad gives {w.value}, an independent implementation {e['block']}")
        u = unwrap_case(c, kbpk, e["block"])
        if not u.ok or u.value[1] != key:
            c.fail(f"a genuine block whose binary section holds decimal digits only is not unwrapped to its key: {u.exc!r}" if not u.ok else "unwrapped to another key")
        yield c
